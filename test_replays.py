"""Plain unit tests that replay recorded cases WITHOUT the explorer.

    cd /verif && /venv/bin/python -m pytest -q test_replays.py

* known_replays/*.json  — one committed example per known finding: the case must still fail with
  exactly its recorded kind on the current tree (if it stops failing, the finding was repaired and the
  `known:` line in KNOWN_FINDINGS.txt should become a `fixed:` line).
* fixed_replays/*.json  — the failing case of a defect repaired by a `fix:` commit in /repo: must pass now.
* replays/<ID>/*.json   — whatever the last runs of the checks wrote (git-ignored): each is re-executed
  and must reproduce its recorded kind (a replay that no longer fails is reported as such).
"""

import glob
import importlib
import json
import os
import sys

import pytest

HERE = os.path.dirname(os.path.abspath(__file__))
sys.path.insert(0, HERE)
sys.path.insert(0, os.path.join(os.environ.get("VERIF_REPO", "/repo"), "src"))


def _replay(path):
    rec = json.load(open(path))
    mod = importlib.import_module("mc.props.%s" % rec["property"].lower())
    r = mod.check(rec["case"])
    return rec, [k for k, _ in r.violations]


@pytest.mark.parametrize("path", sorted(glob.glob(os.path.join(HERE, "known_replays", "*.json"))))
def test_known_finding_still_reproduces(path):
    rec, kinds = _replay(path)
    assert rec["kind"] in kinds, "known finding %s no longer reproduces (kinds now: %s)" % (rec["kind"], kinds)


@pytest.mark.parametrize("path", sorted(glob.glob(os.path.join(HERE, "replays", "*", "*.json"))))
def test_recorded_violation_reproduces(path):
    rec, kinds = _replay(path)
    assert rec["kind"] in kinds, "recorded violation %s does not reproduce" % rec["kind"]


@pytest.mark.parametrize("path", sorted(glob.glob(os.path.join(HERE, "fixed_replays", "*.json"))))
def test_repaired_defect_stays_repaired(path):
    """fixed_replays/*.json — the failing case of a defect repaired by a `fix:` commit: it must pass now."""
    rec, kinds = _replay(path)
    assert rec["kind"] not in kinds, "repaired defect %s is back" % rec["kind"]
