#!/venv/bin/python
"""Regenerate /verif/MANIFEST.json from the property modules present under mc/props and the
table below. Run from /verif:  /venv/bin/python tools/gen_manifest.py"""

import json
import os
import sys

HERE = os.path.dirname(os.path.dirname(os.path.abspath(__file__)))
sys.path.insert(0, HERE)

TECH = {
    "C01": "explicit-state exploration of the real selectors: exhaustive enumeration of inputs x configurations x warm-start histories, invariants in every post-fit state",
    "C02": "bounded exhaustive enumeration of (input, configuration) with per-step state snapshots of the real greedy run, refinement against a brute-force distance model",
    "C03": "bounded exhaustive enumeration of (data, Y, mixing, k, regressor, space, solver) on the real PCovR against an independent spectral reference model",
    "C04": "bounded exhaustive enumeration incl. complete walk over the mixing grid and a finite competitor catalogue; Ky Fan closed-form optimum as oracle",
    "C05": "bounded exhaustive enumeration of kernels x centring x regressors x held-out sizes on the real KernelPCovR against differential and closed-form oracles",
    "C06": "deviation-bounded exhaustive exploration of every wall-clock calibration outcome (scripted clock) x exhaustive inputs, per-step refinement against brute-force FPS",
    "C07": "bounded exhaustive enumeration with per-step refinement of the real CUR / PCov-CUR against a dense SVD/eigh model on an independent projection residual",
    "C08": "explicit-state BFS over every increasing warm-start schedule of the real selectors; differential oracle cold-fit state == chained state on all attributes",
    "C09": "explicit-state exploration of depth-2 call histories over an entry-point catalogue x argument layouts; byte-wise snapshots, refit == fresh differential oracle",
    "C10": "bounded exhaustive enumeration of data x alpha grids x methods x scorers x every balanced 2-fold partition against explicit per-fold regularised least squares",
    "C11": "bounded exhaustive enumeration of data x flags x every small integer weight vector x tolerances against weighted-moment and replication oracles",
    "C12": "bounded exhaustive enumeration of explicit feature maps x weights x flags x test sizes x active sets against feature-space centring",
    "C13": "bounded exhaustive enumeration of data x complete finite groups of orthogonal maps x scalings x index choices against metamorphic and closed-form oracles",
    "C14": "bounded exhaustive enumeration with a complete inner walk over k on the real PCovR against algebraic projector identities",
    "C15": "exhaustive enumeration of all point pairs/triples of a bounded lattice x cells x image shifts against the metric laws",
    "C16": "bounded exhaustive enumeration of point subsets x all weight rankings x all cut-off classes x all input permutations against an exact rational relational model",
    "C17": "bounded exhaustive enumeration of clouds x grids (every k-subset) x cells x image shifts against an independent mixture model",
    "C18": "bounded exhaustive enumeration incl. the complete hyperoctahedral groups as planted maps and competitors; closed-form Procrustes optimum as oracle",
    "C19": "bounded exhaustive enumeration of position subsets x all target assignments against an exact rational brute-force lower-hull model",
    "C20": "bounded exhaustive enumeration of structure lists x dimensions x alphas x all component compositions against the closed form",
}


def main():
    props = [json.loads(l) for l in open(os.path.join(HERE, "properties.jsonl"))]
    checks, na = [], []
    pending = {}
    ppath = os.path.join(HERE, "tools", "not_applicable.json")
    if os.path.exists(ppath):
        pending = json.load(open(ppath))
    for p in props:
        pid = p["id"]
        modpath = os.path.join(HERE, "mc", "props", pid.lower() + ".py")
        if not os.path.exists(modpath) or pid in pending:
            na.append(dict(property_id=pid, reason=pending.get(pid, "check not built yet (work in progress; model checking applies, see DESIGN.md §4)")))
            continue
        src = open(modpath).read()
        doc = src.split('"""')[1].strip().replace("\n", " ")
        checks.append(
            dict(
                property_id=pid,
                quick_cmd="./check %s quick" % pid,
                thorough_cmd="./check %s thorough" % pid,
                evidence_file="/verif/evidence/%s.json" % pid,
                replay_cmd_template="./check %s --replay {path}" % pid,
                engine="mc-explorer",
                level_claimed=dict(
                    category="model_checking",
                    text=(
                        "Bounded exhaustive exploration of the real implementation: every element of the stated finite "
                        "space (DESIGN.md §4 %s; bounds are written to the evidence file) is executed on /repo's working "
                        "tree and judged against an independent reference model; counts of states/transitions/cases are "
                        "measured by the run. " % pid
                    )
                    + doc[:700],
                    design_ref="DESIGN.md §4 %s" % pid,
                ),
                level_note=(
                    "Trusted: numpy/scipy linear algebra used by the reference model, the judgeability policy of DESIGN.md §3.5 "
                    "(ties, spectral gaps, conditioning: undecidable cases are counted as skipped, never failed), and the "
                    "small-scope hypothesis (inputs bounded to the shapes listed in the evidence 'bounds')."
                ),
                technique=TECH[pid],
            )
        )
    man = dict(
        version=1,
        setup_cmd="cd /verif && /venv/bin/python -c \"import sys; sys.path.insert(0,'/repo/src'); import numpy, scipy, sklearn, skmatter, mc.core\" && chmod +x check",
        hooks=dict(
            guard="SKMATTER_VERIF",
            enable="no source hooks: checks import /repo/src directly (pure Python, nothing to build) and observe through public attributes and harness-side wrappers installed at run time; SKMATTER_VERIF is exported by ./check but read by nothing in /repo",
            baseline_off_cmd="cd /repo && /venv/bin/python -m pytest -ra -q -p no:cacheprovider --timeout=900 --continue-on-collection-errors",
            source_commits=[],
            add_only=True,
        ),
        engines=[
            dict(
                name="mc-explorer",
                path="/verif/mc",
                serves_properties=[c["property_id"] for c in checks],
                kind_free_text="hand-written explicit-state / bounded exhaustive explorer for Python (E1 product space, E2 history BFS, E3 scripted-clock environment answers) running the real code against numpy reference models",
            )
        ],
        checks=checks,
        notes="See DESIGN.md. Known findings: KNOWN_FINDINGS.txt. Seeded property-breaking changes: seeded/. Mutant campaign: mutants/REPORT.md.",
        not_applicable=na,
    )
    with open(os.path.join(HERE, "MANIFEST.json"), "w") as f:
        json.dump(man, f, indent=1)
    print("MANIFEST.json: %d checks, %d not claimed" % (len(checks), len(na)))


if __name__ == "__main__":
    main()
