#!/venv/bin/python
"""tools/mkmutant.py <ID> <name> <repo-relative file> <old> <new> [count]
Creates mutants/<ID>/<name>.diff (unified diff against /repo's working tree) by replacing
`old` with `new` (exactly `count` occurrences expected, default 1)."""
import difflib, os, sys
pid, name, rel, old, new = sys.argv[1:6]
count = int(sys.argv[6]) if len(sys.argv) > 6 else 1
src = open(os.path.join("/repo", rel)).read()
old = old.encode().decode("unicode_escape"); new = new.encode().decode("unicode_escape")
if src.count(old) != count:
    sys.exit("expected %d occurrence(s) of old text, found %d" % (count, src.count(old)))
dst = src.replace(old, new)
diff = "".join(difflib.unified_diff(src.splitlines(True), dst.splitlines(True), "a/" + rel, "b/" + rel))
d = os.path.join(os.path.dirname(os.path.dirname(os.path.abspath(__file__))), "mutants", pid)
os.makedirs(d, exist_ok=True)
open(os.path.join(d, name + ".diff"), "w").write(diff)
print("wrote", os.path.join(d, name + ".diff"))
