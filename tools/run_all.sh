#!/bin/bash
# tools/run_all.sh [tier]   run every registered check once (VERIF_SEED honoured); one summary line each
cd "$(dirname "$0")/.." || exit 2
T=${1:-quick}
for id in $(ls mc/props | grep '^c[0-9]' | sed 's/\.py//' | tr a-z A-Z); do
  s=$(date +%s)
  out=$(./check $id $T 2>&1); rc=$?
  e=$(( $(date +%s) - s ))
  echo "$id rc=$rc ${e}s $(echo "$out" | grep -c '^VIOLATION') violations, $(echo "$out" | grep -c '^KNOWN-FINDING') known | $(echo "$out" | grep '^SUMMARY' | sed 's/.*cases=/cases=/' | cut -c1-150)"
  echo "$out" | grep '^VIOLATION\|^UNREPRODUCED\|harness' | cut -c1-300
done
