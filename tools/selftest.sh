#!/bin/bash
# tools/selftest.sh — the explorer reports what it should and nothing else (uses the toy module T00)
cd "$(dirname "$0")/.." || exit 2
E=$(mktemp -d /tmp/selftest.XXXXXX); export VERIF_EVIDENCE_DIR=$E
fail=0
run() { VERIF_T00_MODE=$1 ./check T00 quick > $E/out.txt 2>&1; echo $?; }
rc=$(run ok);        [ "$rc" = 0 ] && ! grep -q '^VIOLATION' $E/out.txt && grep -q 'cases=100 .*exhaustive=True' $E/out.txt || { echo "FAIL ok"; fail=1; }
rc=$(run violation); [ "$rc" = 1 ] && grep -q '^VIOLATION property=T00 replay=.*kind=planted' $E/out.txt || { echo "FAIL violation"; fail=1; }
f=$(grep -o 'replay=[^ ]*' $E/out.txt | head -1 | cut -d= -f2)
VERIF_T00_MODE=violation ./check T00 --replay "$f" > $E/rep.txt 2>&1; [ $? = 1 ] || { echo "FAIL replay(with defect)"; fail=1; }
VERIF_T00_MODE=ok ./check T00 --replay "$f" > $E/rep.txt 2>&1; [ $? = 0 ] || { echo "FAIL replay(without defect)"; fail=1; }
rc=$(run flaky);     [ "$rc" = 0 ] && grep -q '^UNREPRODUCED' $E/out.txt && ! grep -q '^VIOLATION' $E/out.txt || { echo "FAIL flaky"; fail=1; }
rc=$(run hang);      [ "$rc" = 1 ] && grep -q 'kind=timeout' $E/out.txt || { echo "FAIL hang"; fail=1; }
rm -rf $E
[ $fail = 0 ] && echo "selftest: all 6 behaviours as specified" || exit 1
