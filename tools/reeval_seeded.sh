#!/bin/bash
# tools/reeval_seeded.sh   re-run the current quick check of its property against every stored seeded change
# and record the result in seeded/<id>/meta.json ("checks_now"); prints one line per change.
cd "$(dirname "$0")/.." || exit 2
for d in seeded/C*/; do
  d=${d%/}; id=$(basename $d | cut -d- -f1)
  line=$(tools/try_seeded.sh $d $id | tail -1)
  echo "$line"
  /venv/bin/python - "$d" "$line" <<'PY'
import json, sys
d, line = sys.argv[1:3]
m = json.load(open(d + "/meta.json"))
m["checks_at_first_evaluation"] = m.get("checks_at_first_evaluation", m.get("checks"))
m["checks_now"] = line.split(" ", 1)[1] if " " in line else line
m.pop("checks", None)
json.dump(m, open(d + "/meta.json", "w"), indent=1)
PY
done
