#!/bin/bash
# tools/try_seeded.sh <seeded/<id> dir> <check ids...>  apply the stored patch to a scratch copy and run checks against it
cd "$(dirname "$0")/.." || exit 2
D=$1; shift
S=$(mktemp -d /tmp/seed.XXXXXX); cp -r /repo/src $S/
(cd $S && git init -q . 2>/dev/null; git apply --whitespace=nowarn /verif/$D/patch.diff) || { echo "$D PATCH-FAILED"; rm -rf $S; exit 1; }
for id in "$@"; do
  out=$(VERIF_REPO=$S VERIF_EVIDENCE_DIR=$S/evidence ./check $id quick 2>&1); rc=$?
  echo "$D $id exit=$rc $(echo "$out" | grep '^VIOLATION' | grep -o 'kind=[^ ]*' | sort -u | tr '\n' ' ')"
done
rm -rf $S
