#!/bin/bash
# Run the repository's pinned suite (guard off) in $1 (default /repo); print pass/fail summary.
# The 3 network-bound tests of tests/test_sample_simple_cur.py fail offline and are not in BASELINE stable_pass.
R=${1:-/repo}
cd "$R" && env -u SKMATTER_VERIF /venv/bin/python -m pytest -q -p no:cacheprovider --timeout=900 --continue-on-collection-errors -n 8 2>/dev/null | tail -6 \
 || true
