#!/bin/bash
# tools/eval_seeded.sh <dir with patchK.diff demoK.py metaK.json> <PID> <K> [extra check ids...]
# Confirms an independently written property-breaking change in a scratch copy (outside /repo and
# /verif): demo fails with it / passes without it, the repository's own suite still passes, then runs
# the property's quick check (and optional extra checks) against the scratch copy. Stores everything
# under /verif/seeded/<PID>-<K>/ and deletes the scratch copy.
cd "$(dirname "$0")/.." || exit 2
SRC=$1; PID=$2; K=$3; shift 3
DK=$K; if [[ "$1" =~ ^[0-9]+$ ]]; then DK=$1; shift; fi   # optional destination index
EXTRA="$@"
D=seeded/$PID-$DK; mkdir -p $D
cp $SRC/patch$K.diff $D/patch.diff; cp $SRC/demo$K.py $D/demo.py; cp $SRC/meta$K.json $D/meta_agent.json 2>/dev/null
S=$(mktemp -d /tmp/seed.XXXXXX)
cp -r /repo/src /repo/tests /repo/pyproject.toml $S/ 2>/dev/null
(cd $S && git init -q . 2>/dev/null; git apply --whitespace=nowarn /verif/$D/patch.diff) || { echo "$PID-$K PATCH-FAILED"; rm -rf $S; exit 1; }
export OMP_NUM_THREADS=1 OPENBLAS_NUM_THREADS=1 MKL_NUM_THREADS=1
PYTHONPATH=$S/src /venv/bin/python $D/demo.py > $S/demo_with.log 2>&1; dw=$?
PYTHONPATH=/repo/src /venv/bin/python $D/demo.py > $S/demo_without.log 2>&1; dwo=$?
tres=$(cd $S && PYTHONPATH=$S/src /venv/bin/python -m pytest -q -p no:cacheprovider -n 8 --timeout=900 tests 2>/dev/null | tail -1)
res=""
for id in $PID $EXTRA; do
  out=$(VERIF_REPO=$S VERIF_EVIDENCE_DIR=$S/evidence ./check $id quick 2>&1); rc=$?
  kinds=$(echo "$out" | grep '^VIOLATION' | grep -o 'kind=[^ ]*' | sort -u | tr '\n' ' ')
  res="$res $id:exit=$rc[$kinds]"
  echo "$out" | grep '^VIOLATION' | head -3 | cut -c1-400 > $D/check_$id.txt
done
echo "$PID-$DK demo_with=$dw demo_without=$dwo tests=[$tres] checks:$res"
/venv/bin/python - "$D" "$PID" "$dw" "$dwo" "$tres" "$res" <<'PY'
import json, sys, os
d, pid, dw, dwo, tres, res = sys.argv[1:7]
agent = {}
try: agent = json.load(open(os.path.join(d, "meta_agent.json")))
except Exception: pass
meta = dict(property=pid, origin="independent sub-agent given only the property text and a scratch worktree",
            summary=agent.get("summary"), needs_to_manifest=agent.get("needs_to_manifest"), files_touched=agent.get("files_touched"),
            confirmed=dict(demo_exit_with_change=int(dw), demo_exit_without_change=int(dwo), repository_suite_with_change=tres,
                           how="scratch copy of /repo outside /repo and /verif: git apply patch.diff; PYTHONPATH=<copy>/src python demo.py; pytest tests; ./check <ID> quick with VERIF_REPO=<copy>; copy removed"),
            checks=res.strip())
json.dump(meta, open(os.path.join(d, "meta.json"), "w"), indent=1)
PY
rm -f $D/meta_agent.json; rm -rf $S
