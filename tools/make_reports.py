#!/venv/bin/python
"""tools/make_reports.py  — build mutants/REPORT.md (from mutants/results.txt, the output of
`tools/run_mutants.sh --tests > mutants/results.txt`) and seeded/INDEX.md (from seeded/*/meta.json)."""
import glob, json, os, re
HERE = os.path.dirname(os.path.dirname(os.path.abspath(__file__)))
os.chdir(HERE)

def mutants():
    path = "mutants/results.txt"
    rows = []
    if os.path.exists(path):
        for line in open(path):
            m = re.match(r"(C\d+) (\S+) exit=(\d+) tests=\[(.*?)\] ?(.*)", line.strip())
            if m:
                rows.append(m.groups())
    out = ["# Mutant campaign", "",
           "Each patch under `mutants/<ID>/` is a hand-written, realistic property-breaking change (see DESIGN.md §7; the",
           "`prefix_*` ones re-introduce a defect that was repaired by a `fix:` commit). `tools/run_mutants.sh --tests` copies `/repo`",
           "to a scratch directory outside `/repo` and `/verif`, applies ONE patch, runs the repository's own suite there (the",
           "mutant must still pass: `555 passed`, the 3 `failed` are the network-bound sample-CUR tests of the baseline), runs the",
           "property's quick check against the copy and deletes the copy. `exit=1` = the check reported a VIOLATION.", "",
           "| property | mutant | repository suite | check | violation kinds |", "|---|---|---|---|---|"]
    caught = valid = 0
    for pid, name, rc, tests, kinds in rows:
        ok_suite = ("555 passed" in tests and "3 failed" in tests) or not tests.strip() or tests.strip() == "-"
        valid += ok_suite
        caught += (rc == "1") and ok_suite
        k = " ".join(sorted(set(x.replace("kind=", "") for x in kinds.split())))
        suite = "passes (555 passed)" if ok_suite else "KILLED BY THE SUITE (%s) - not counted" % tests.strip()
        out.append("| %s | %s | %s | %s | %s |" % (pid, name, suite, "caught" if rc == "1" else "**missed**", k[:160]))
    out += ["", "%d mutants; %d pass the repository's own suite; %d of those are caught by the property's quick check." % (len(rows), valid, caught), ""]
    open("mutants/REPORT.md", "w").write("\n".join(out))
    return caught, len(rows)

def seeded():
    out = ["# Independently seeded property-breaking changes", "",
           "Each directory holds a change written by a fresh sub-agent that was given ONLY the text of one property and its own scratch",
           "worktree of `/repo` (nothing from `/verif`): `patch.diff`, the agent's demonstration `demo.py` (exits non-zero with the change,",
           "0 without) and `meta.json` (what it needs to manifest, what was confirmed here: demo with / without the change, the",
           "repository's own suite with the change, and the result of the property's check at first evaluation and now).", "",
           "| id | needs to manifest | suite with change | check at first evaluation | check now |", "|---|---|---|---|---|"]
    n = now = first = 0
    for d in sorted(glob.glob("seeded/C*/")):
        m = json.load(open(d + "meta.json"))
        n += 1
        f = m.get("checks_at_first_evaluation") or m.get("checks") or ""
        c = m.get("checks_now") or f
        first += "exit=1" in f.split(" ")[0] if f else 0
        now += "exit=1" in c
        tests = (m.get("confirmed", {}).get("repository_suite_with_change") or "")
        tests = re.sub(r", \d+ skipped.*", "", tests)
        short = lambda s: re.sub(r"kind=", "", s)[:140]
        out.append("| %s | %s | %s | %s | %s |" % (os.path.basename(d.rstrip("/")), (m.get("needs_to_manifest") or "")[:220].replace("|", "/").replace("\n", " "), tests, short(f), short(c)))
    out += ["", "%d changes; %d caught by the property's check as it was when the change arrived, %d caught now." % (n, first, now), ""]
    open("seeded/INDEX.md", "w").write("\n".join(out))
    return n, first, now

if __name__ == "__main__":
    print("mutants caught/total:", mutants())
    print("seeded total/first/now:", seeded())
