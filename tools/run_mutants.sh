#!/bin/bash
# tools/run_mutants.sh [--tests] [ID ...]   apply each mutants/<ID>/*.diff to a scratch copy of /repo
# (outside /repo and /verif), run the property's quick check against it, report, delete the copy.
cd "$(dirname "$0")/.." || exit 2
TESTS=0; if [ "$1" = "--tests" ]; then TESTS=1; shift; fi
IDS=${@:-$(ls mutants | grep '^C')}
for id in $IDS; do
  for d in mutants/$id/*.diff; do
    [ -f "$d" ] || continue
    S=$(mktemp -d /tmp/mut.XXXXXX)
    cp -r /repo/src /repo/tests /repo/pyproject.toml "$S"/ 2>/dev/null
    if ! (cd "$S" && patch -p1 -s < "/verif/$d"); then echo "$id $(basename $d) PATCH-FAILED"; rm -rf "$S"; continue; fi
    tres="-"
    if [ $TESTS = 1 ]; then
      tres=$(cd "$S" && PYTHONPATH="$S/src" /venv/bin/python -m pytest -q -p no:cacheprovider -n 8 --timeout=900 2>/dev/null | tail -1 | grep -o '[0-9]* failed\|[0-9]* passed' | tr '\n' ' ')
    fi
    out=$(VERIF_REPO="$S" VERIF_EVIDENCE_DIR="$S/evidence" ./check $id quick 2>&1); rc=$?
    kinds=$(echo "$out" | grep '^VIOLATION' | grep -o 'kind=[^ ]*' | sort -u | tr '\n' ' ')
    echo "$id $(basename $d .diff) exit=$rc tests=[$tres] $kinds"
    rm -rf "$S"
  done
done
