"""Bounded exhaustive explorer (E1), result accounting, evidence, replay, known findings.

A property module provides

    ID, RULE, ASSUMPTIONS, DESIGN_REF
    bounds(tier, seed)            -> JSON-able description of the alphabets / bounds
    groups(tier, seed)            -> list of JSON-able group descriptors (outer factors)
    cases(group)                  -> iterator of JSON-able *literal* cases (inner factors)
    check(case)                   -> R   (runs the REAL code on that one case and judges it)
    count(group) [optional]       -> closed-form number of cases of the group

The explorer walks every group and every case (nothing is sampled), shards groups over
forked workers, merges results in group order, re-executes every reported violation from its
JSON in the parent process (a violation that does not reproduce is not reported), and writes
the evidence file.
"""

import hashlib
import json
import multiprocessing as mp
import os
import sys
import time
import traceback

import numpy as np

VERIF = os.path.dirname(os.path.dirname(os.path.abspath(__file__)))


# --------------------------------------------------------------------------------------
# per-case result


class R:
    """Result of checking one case."""

    __slots__ = (
        "violations",
        "skipped",
        "nontrivial",
        "states",
        "transitions",
        "counters",
        "outcome",
    )

    def __init__(self):
        self.violations = []  # list of (kind, detail)
        self.skipped = None  # reason string: the case was not judged at all
        self.nontrivial = False
        self.states = 1
        self.transitions = 1
        self.counters = {}
        self.outcome = None

    def fail(self, kind, detail=""):
        self.violations.append((kind, str(detail)[:600]))
        return self

    def skip(self, reason):
        self.skipped = reason
        return self

    def count(self, name, n=1):
        self.counters[name] = self.counters.get(name, 0) + n


def canon(obj):
    return json.dumps(obj, sort_keys=True, separators=(",", ":"), default=_np_default)


def _np_default(o):
    if isinstance(o, np.ndarray):
        return o.tolist()
    if isinstance(o, (np.integer,)):
        return int(o)
    if isinstance(o, (np.floating,)):
        return float(o)
    if isinstance(o, (np.bool_,)):
        return bool(o)
    raise TypeError(type(o))


def digest(obj):
    return hashlib.sha1(canon(obj).encode()).digest()[:8]


# --------------------------------------------------------------------------------------
# group worker

_MOD = None
_DEADLINE = None
MAX_VIOL_PER_KIND_PER_GROUP = 2


class _CaseTimeout(BaseException):
    pass


def _on_alarm(signum, frame):
    raise _CaseTimeout()


def _arm(mod):
    import signal

    try:
        signal.signal(signal.SIGALRM, _on_alarm)
        signal.setitimer(signal.ITIMER_REAL, float(getattr(mod, "CASE_TIMEOUT", 120)))
    except Exception:
        pass


def _disarm():
    import signal

    try:
        signal.setitimer(signal.ITIMER_REAL, 0)
    except Exception:
        pass


def _run_group(args):
    gi, group = args
    mod = _MOD
    out = dict(
        gi=gi,
        cases=0,
        judged=0,
        states=0,
        transitions=0,
        skipped={},
        counters={},
        nontrivial=set(),
        outcomes=set(),
        viol={},  # kind -> [count, [ (case, detail) ... ]]
        sample=None,
        capped=False,
    )
    try:
        it = mod.cases(group)
        for case in it:
            if _DEADLINE is not None and time.time() > _DEADLINE:
                out["capped"] = True
                break
            out["cases"] += 1
            try:
                _arm(mod)
                try:
                    r = mod.check(case)
                finally:
                    _disarm()
            except _CaseTimeout:
                r = R()
                r.fail("timeout", "case did not finish within %ss (non-terminating loop?)" % getattr(mod, "CASE_TIMEOUT", 120))
            except Exception as e:  # harness or library crash outside a judged clause
                r = R()
                tb = traceback.extract_tb(e.__traceback__)
                where = "%s:%s" % (os.path.basename(tb[-1].filename), tb[-1].name) if tb else "?"
                r.fail("crash:%s@%s" % (type(e).__name__, where), repr(e))
            if out["sample"] is None:
                out["sample"] = case
            if r.skipped is not None:
                out["skipped"][r.skipped] = out["skipped"].get(r.skipped, 0) + 1
                continue
            out["judged"] += 1
            out["states"] += r.states
            out["transitions"] += r.transitions
            for k, v in r.counters.items():
                out["counters"][k] = out["counters"].get(k, 0) + v
            if r.nontrivial:
                out["nontrivial"].add(digest(case))
            if r.outcome is not None:
                out["outcomes"].add(digest(r.outcome))
            for kind, detail in r.violations:
                slot = out["viol"].setdefault(kind, [0, []])
                slot[0] += 1
                if len(slot[1]) < MAX_VIOL_PER_KIND_PER_GROUP:
                    slot[1].append((case, detail))
    except Exception as e:
        out["viol"].setdefault("generator-crash:%s" % type(e).__name__, [0, []])
        slot = out["viol"]["generator-crash:%s" % type(e).__name__]
        slot[0] += 1
        slot[1].append(({"group": group}, traceback.format_exc()[-600:]))
    return out


# --------------------------------------------------------------------------------------
# known findings


def load_known(pid):
    """known: property=C01 kind=<kind> :: text   /   fixed: property=C05 <commit> text"""
    known = {}
    path = os.path.join(VERIF, "KNOWN_FINDINGS.txt")
    if not os.path.exists(path):
        return known
    for line in open(path):
        line = line.strip()
        if not line.startswith("known:"):
            continue
        head, _, text = line[len("known:"):].partition("::")
        fields = dict(f.split("=", 1) for f in head.split() if "=" in f)
        if fields.get("property") == pid and "kind" in fields:
            known[fields["kind"]] = text.strip()
    return known


# --------------------------------------------------------------------------------------
# driver


def explore(mod, tier, seed, workers=None, time_cap=None):
    global _MOD, _DEADLINE
    t0 = time.time()
    _MOD = mod
    _DEADLINE = (t0 + time_cap) if time_cap else None
    groups = list(mod.groups(tier, seed))
    workers = workers or int(os.environ.get("VERIF_WORKERS", os.cpu_count() or 1))
    workers = max(1, min(workers, len(groups)))
    jobs = list(enumerate(groups))
    if workers == 1:
        results = [_run_group(j) for j in jobs]
    else:
        ctx = mp.get_context("fork")
        with ctx.Pool(workers) as pool:
            results = list(pool.imap_unordered(_run_group, jobs, chunksize=max(1, min(64, len(jobs) // (workers * 32)))))
    results.sort(key=lambda o: o["gi"])

    tot = dict(cases=0, judged=0, states=0, transitions=0)
    skipped, counters, viol = {}, {}, {}
    nontrivial, outcomes = set(), set()
    samples, capped = [], False
    space_size = 0 if hasattr(mod, "count") else None
    count_mismatch = []
    for o in results:
        for k in tot:
            tot[k] += o[k]
        for k, v in o["skipped"].items():
            skipped[k] = skipped.get(k, 0) + v
        for k, v in o["counters"].items():
            counters[k] = counters.get(k, 0) + v
        nontrivial |= o["nontrivial"]
        outcomes |= o["outcomes"]
        capped = capped or o["capped"]
        for kind, (n, ex) in o["viol"].items():
            slot = viol.setdefault(kind, [0, []])
            slot[0] += n
            if len(slot[1]) < 5:
                slot[1].extend(ex[: 5 - len(slot[1])])
        if o["sample"] is not None and len(samples) < 3 and (o["gi"] % max(1, len(groups) // 3) == 0):
            samples.append(o["sample"])
        if space_size is not None:
            c = mod.count(groups[o["gi"]])
            space_size += c
            if c != o["cases"] and not o["capped"]:
                count_mismatch.append((o["gi"], c, o["cases"]))
    if not samples and results and results[0]["sample"] is not None:
        samples.append(results[0]["sample"])

    exhaustive = (not capped) and not count_mismatch
    return dict(
        tot=tot,
        skipped=skipped,
        counters=counters,
        viol=viol,
        distinct_nontrivial=len(nontrivial),
        distinct_outcomes=len(outcomes),
        samples=samples,
        capped=capped,
        exhaustive=exhaustive,
        space_size=space_size,
        count_mismatch=count_mismatch,
        n_groups=len(groups),
        workers=workers,
        wall=time.time() - t0,
    )


def _short(obj, limit=1500):
    s = canon(obj)
    if len(s) <= limit:
        return json.loads(s)
    return {"truncated_case_json": s[:limit] + "..."}


def run_check(mod, tier, seed):
    pid = mod.ID
    t0 = time.time()
    time_cap = float(os.environ["VERIF_TIME_CAP"]) if os.environ.get("VERIF_TIME_CAP") else None
    res = explore(mod, tier, seed, time_cap=time_cap)
    known = load_known(pid)
    if os.environ.get("VERIF_EVIDENCE_DIR"):  # mutant / seeded campaigns keep their replays with their evidence
        rdir = os.path.join(os.environ["VERIF_EVIDENCE_DIR"], "replays", pid)
    else:
        rdir = os.path.join(VERIF, "replays", pid)
    lines, n_viol, known_hit, unreproduced = [], 0, {}, {}
    for kind in sorted(res["viol"]):
        n, examples = res["viol"][kind]
        confirmed = None
        for case, detail in examples:
            # re-execute from JSON in this (fresh) process before believing it
            case2 = json.loads(canon(case))
            try:
                _arm(mod)
                try:
                    again = mod.check(case2) if "group" not in case2 or len(case2) > 1 else None
                finally:
                    _disarm()
                kinds = [k for k, _ in again.violations] if again is not None else [kind]
            except _CaseTimeout:
                kinds = ["timeout"]
            except Exception as e:
                tb = traceback.extract_tb(e.__traceback__)
                where = "%s:%s" % (os.path.basename(tb[-1].filename), tb[-1].name) if tb else "?"
                kinds = ["crash:%s@%s" % (type(e).__name__, where)]
            if kind in kinds:
                os.makedirs(rdir, exist_ok=True)
                h = hashlib.sha1(canon(case2).encode()).hexdigest()[:10]
                safe = "".join(c if c.isalnum() or c in "-_." else "_" for c in kind)[:60]
                path = os.path.join(rdir, "%s-%s.json" % (safe, h))
                with open(path, "w") as f:
                    json.dump(
                        dict(property=pid, kind=kind, detail=detail, case=case2),
                        f,
                        indent=1,
                        default=_np_default,
                    )
                confirmed = (path, detail)
                break
        if confirmed is None:
            unreproduced[kind] = n
            lines.append("UNREPRODUCED property=%s kind=%s cases=%d (not reported)" % (pid, kind, n))
            continue
        path, detail = confirmed
        if kind in known:
            known_hit[kind] = n
            lines.append(
                "KNOWN-FINDING: property=%s %s [kind=%s cases=%d example=%s]"
                % (pid, known[kind], kind, n, path)
            )
        else:
            n_viol += n
            lines.append("VIOLATION property=%s replay=%s kind=%s cases=%d :: %s" % (pid, path, kind, n, detail[:300]))

    tot = res["tot"]
    cov = dict(
        states=max(tot["states"], 0),
        transitions=max(tot["transitions"], 0),
        traces_validated_against_impl=tot["judged"],
        samples=[_short(s) for s in res["samples"]] or ["(no case was generated)"],
        evaluations=tot["cases"],
        distinct_nontrivial=res["distinct_nontrivial"],
        distinct_outcomes=res["distinct_outcomes"],
        rule=mod.RULE,
        exhaustive=bool(res["exhaustive"]),
        space_size=res["space_size"],
        groups=res["n_groups"],
        skipped_by_rule=res["skipped"],
        counters=res["counters"],
        bounds=mod.bounds(tier, seed),
        known_findings_hit=known_hit,
        unreproduced=unreproduced,
        time_cap_hit=bool(res["capped"]),
        workers=res["workers"],
        degraded=sorted(getattr(mod, "DEGRADED", [])),
        explorer=getattr(mod, "EXPLORER", "E1 product-space"),
    )
    if res["count_mismatch"]:
        cov["count_mismatch"] = res["count_mismatch"][:5]
    ev = dict(
        property_id=pid,
        tier=tier,
        seed=int(seed),
        level="model_checking",
        coverage=cov,
        assumptions=list(mod.ASSUMPTIONS),
        wall_s=round(time.time() - t0, 2),
        violations=int(n_viol),
    )
    edir = os.environ.get("VERIF_EVIDENCE_DIR") or os.path.join(VERIF, "evidence")  # override: mutant campaigns only
    os.makedirs(edir, exist_ok=True)
    epath = os.path.join(edir, pid + ".json")
    with open(epath, "w") as f:
        json.dump(ev, f, indent=1, default=_np_default)
    for ln in lines:
        print(ln)
    print(
        "SUMMARY property=%s tier=%s seed=%s groups=%d cases=%d judged=%d states=%d transitions=%d "
        "nontrivial=%d outcomes=%d skipped=%s exhaustive=%s wall=%.1fs"
        % (
            pid,
            tier,
            seed,
            res["n_groups"],
            tot["cases"],
            tot["judged"],
            tot["states"],
            tot["transitions"],
            res["distinct_nontrivial"],
            res["distinct_outcomes"],
            sum(res["skipped"].values()),
            res["exhaustive"],
            time.time() - t0,
        )
    )
    sys.stdout.flush()
    return 1 if n_viol else 0


def run_replay(mod, path):
    rec = json.load(open(path))
    case = rec["case"]
    r = mod.check(case)
    if r.skipped:
        print("replay: case skipped by rule:", r.skipped)
        return 0
    if r.violations:
        for kind, detail in r.violations:
            print("VIOLATION property=%s replay=%s kind=%s :: %s" % (mod.ID, path, kind, detail[:400]))
        return 1
    print("replay: property %s holds on this case" % mod.ID)
    return 0
