"""Finite alphabets of inputs (DESIGN §3). Everything here is a finite, ordered list that the
explorer walks completely; nothing is drawn at run time except the *generic* family, which is
a finite list fixed by (seed, shape, index)."""

import itertools

import numpy as np


def lattice(n, m, values):
    """All n x m matrices with entries from `values`, lexicographic order, as nested lists."""
    for flat in itertools.product(values, repeat=n * m):
        yield [list(flat[i * m:(i + 1) * m]) for i in range(n)]


def lattice_count(n, m, values):
    return len(values) ** (n * m)


def vectors(n, values):
    for flat in itertools.product(values, repeat=n):
        yield list(flat)


def generic(n, m, seed, j, kind="plain", cond_max=1e3):
    """j-th generic matrix of shape (n, m): entries rounded to 2^-10, well conditioned.

    kind: plain | centered | decay (column scales 1, 1/2, 1/4, ...) | lowrank<r>
    Returns a nested list, or None if rejected by the conditioning rule (counted by callers).
    """
    rng = np.random.default_rng([int(seed), n, m, int(j), 7919])
    X = rng.standard_normal((n, m))
    if kind.startswith("lowrank"):
        r = int(kind[len("lowrank"):])
        A = np.round(rng.standard_normal((n, r)) * 32) / 32
        A[-1] = -A[:-1].sum(axis=0)  # exactly centred columns, still dyadic
        B = np.round(rng.standard_normal((r, m)) * 32) / 32
        return (A @ B).tolist()  # exact dyadic product: rank is exactly <= r
    if kind in ("decay", "cdecay"):
        X = X * (0.5 ** np.arange(m))[None, :]
    X = np.round(X * 1024) / 1024
    if kind in ("centered", "cdecay") or kind.startswith("lowrank"):
        X = X - X.mean(axis=0)
    if not kind.startswith("lowrank"):
        s = np.linalg.svd(X, compute_uv=False)
        r = min(n, m) - (1 if kind in ("centered", "cdecay") and n <= m else 0)
        if r < 1 or s[r - 1] <= 0 or s[0] / s[r - 1] > cond_max:
            return None
    return X.tolist()


def generic_list(n, m, seed, count, kind="plain"):
    out = []
    j = 0
    rejected = 0
    while len(out) < count and j < 10 * count + 10:
        X = generic(n, m, seed, j, kind)
        j += 1
        if X is None:
            rejected += 1
            continue
        out.append(X)
    return out


def generic_vec(n, seed, j, p=None):
    rng = np.random.default_rng([int(seed), n, int(j), 104729, (p or 0)])
    if p is None:
        y = rng.standard_normal(n)
    else:
        y = rng.standard_normal((n, p))
    return (np.round(y * 1024) / 1024).tolist()


def clustered(d, per, seed=0, spread=1.0, sep=10.0, centers=None):
    """Lattice offsets around well separated centres: pruning in VoronoiFPS becomes active."""
    if centers is None:
        centers = list(itertools.product([0, 1], repeat=d))
    rng = np.random.default_rng([int(seed), d, per, 31337])
    pts = []
    for c in centers:
        for _ in range(per):
            off = np.round(rng.uniform(-spread, spread, size=d) * 64) / 64
            pts.append((sep * np.array(c, float) + off).tolist())
    return pts


def signed_permutations(d):
    """The hyperoctahedral group B_d as a complete finite family of orthogonal matrices."""
    for perm in itertools.permutations(range(d)):
        for signs in itertools.product([1, -1], repeat=d):
            Q = np.zeros((d, d))
            for i, p in enumerate(perm):
                Q[i, p] = signs[i]
            yield Q.tolist()


def givens(d, i, j, theta):
    Q = np.eye(d)
    c, s = np.cos(theta), np.sin(theta)
    Q[i, i] = c
    Q[j, j] = c
    Q[i, j] = -s
    Q[j, i] = s
    return Q


def givens_menu(d, angles=(0.3, 1.1, 2.5)):
    for i in range(d):
        for j in range(i + 1, d):
            for a in angles:
                yield givens(d, i, j, a).tolist()


def compositions(n):
    """All compositions (ordered partitions) of n: 2^(n-1) of them."""
    for cuts in itertools.product([0, 1], repeat=n - 1):
        parts, cur = [], 1
        for c in cuts:
            if c:
                parts.append(cur)
                cur = 1
            else:
                cur += 1
        parts.append(cur)
        yield parts


def increasing_schedules(n, start_min=1):
    """All increasing schedules n1 < n2 < ... < n ending in n (2^(n-1) for start_min=1)."""
    below = list(range(start_min, n))
    for r in range(len(below) + 1):
        for sub in itertools.combinations(below, r):
            yield list(sub) + [n]


# perturbed grid: site (a, b, ...) -> site + eps(site) with fixed incommensurate offsets
_EPS = [0.0137, -0.0291, 0.0419, -0.0173, 0.0331, -0.0089, 0.0257, -0.0383, 0.0061,
        0.0203, -0.0347, 0.0113, -0.0229, 0.0397, -0.0151, 0.0283, -0.0071, 0.0359,
        -0.0127, 0.0241, -0.0313, 0.0047, 0.0179, -0.0263, 0.0431, -0.0101, 0.0319]


def perturbed_grid(side, d):
    sites = list(itertools.product(range(side), repeat=d))
    pts = []
    for k, s in enumerate(sites):
        pts.append([float(s[a]) + _EPS[(k * d + a * 5 + 3) % len(_EPS)] * (1 + 0.37 * a) for a in range(d)])
    return pts


def integer_grid(side, d):
    return [list(map(float, s)) for s in itertools.product(range(side), repeat=d)]
