"""./check <ID> <quick|thorough>  |  ./check <ID> --replay <path>"""

import importlib
import os
import sys


def _bind_repo():
    repo = os.environ.get("VERIF_REPO", "/repo")
    src = os.path.join(os.path.abspath(repo), "src")
    if not os.path.isdir(os.path.join(src, "skmatter")):
        print("harness error: no skmatter sources under %s" % src)
        sys.exit(2)
    sys.path.insert(0, src)
    import skmatter

    got = os.path.dirname(os.path.abspath(skmatter.__file__))
    if os.path.realpath(got) != os.path.realpath(os.path.join(src, "skmatter")):
        print("harness error: skmatter imported from %s, expected %s" % (got, src))
        sys.exit(2)


def main(argv):
    if len(argv) < 2:
        print(__doc__)
        return 2
    pid = argv[0].upper()
    _bind_repo()
    import warnings

    warnings.filterwarnings("ignore")
    import numpy as np

    np.seterr(all="ignore")
    from . import core

    mod = importlib.import_module("mc.props.%s" % pid.lower())
    if argv[1] == "--replay":
        return core.run_replay(mod, argv[2])
    tier = os.environ.get("VERIF_TIER") or argv[1]
    if tier not in ("quick", "thorough"):
        print("tier must be quick or thorough")
        return 2
    seed = int(os.environ.get("VERIF_SEED", "0") or 0)
    rc = core.run_check(mod, tier, seed)
    _validate(pid)
    return rc


def _validate(pid):
    """Validate the evidence file with the tooling venv's jsonschema (if present)."""
    import shutil
    import subprocess

    vt = shutil.which("python3-vt")
    here = os.path.dirname(os.path.dirname(os.path.abspath(__file__)))
    if not vt:
        return
    code = (
        "import json,jsonschema,sys;"
        "s=json.load(open(sys.argv[1]));e=json.load(open(sys.argv[2]));"
        "jsonschema.Draft202012Validator(s).validate(e)"
    )
    p = subprocess.run(
        [vt, "-c", code, os.path.join(here, "schemas", "EVIDENCE.schema.json"), os.path.join(os.environ.get("VERIF_EVIDENCE_DIR") or os.path.join(here, "evidence"), pid + ".json")],
        capture_output=True,
        text=True,
    )
    if p.returncode != 0:
        print("harness warning: evidence file does not validate:", p.stderr.strip()[-300:])


if __name__ == "__main__":
    sys.exit(main(sys.argv[1:]))
