"""C14 — PCovR's projectors form a consistent, nested, orthogonal decomposition.

E1 over (centred data, Y 1-D / 2-D, mixing in (0,1], space, regressor) with a COMPLETE inner
walk over k = 1..min(n,m) (nestedness relates consecutive k). Oracle: algebraic identities
between the public projectors and methods (transform == X pxt_, predict(X) ==
predict(T=transform(X)), T^T T == diag(retained eigenvalues of an independently built K~),
transform(inverse_transform(T)) == T, components for k are the first k of those for k+1 under
the gap rule, training losses non-increasing in k, score == -(l_X + l_Y), 1-D y gives 1-D
predictions and coefficient vectors), also on new data."""

import numpy as np

from .. import fam, pcov
from ..core import R

ID = "C14"
DESIGN_REF = "DESIGN.md §4 C14"
EXPLORER = "E1 product-space with complete inner walk over k"
RULE = (
    "cases = (centred X: ternary lattices 4x2/3x3/2x4 slices, generic tall/wide/square, planted low rank) x Y (1-D, "
    "2-D with 1..3 columns) x mixing in {1/8,1/2,7/8,1} x space in {feature, sample} x regressor in {default, "
    "LinearRegression(no intercept), precomputed+W}; every case walks all k = 1..min(n,m) with the full solver; "
    "non-trivial = at least two consecutive k were compared for nestedness; states = fitted (k) states judged"
)
ASSUMPTIONS = [
    "nestedness and T^T T are judged under the gap rule (relative gap > 1e-6 at k); retained eigenvalues in the grey zone near the implementation's zero cut are unjudgeable",
    "closeness 1e-6 relative to the scale of the quantity (lambda_1, max|X|, max|Y|) times cond(X) <= 1e3",
]
DEGRADED = set()
MIXINGS = [0.125, 0.5, 0.875, 1.0]
REGS = ["default", "linreg", "pre+W", "linreg-fitted-elsewhere"]


def bounds(tier, seed):
    ds = pcov.pcovr_datas(tier, seed)
    return dict(
        data={l: sum(1 for a, _, _ in ds if a == l) for l in sorted({l for l, _, _ in ds})},
        mixing=MIXINGS,
        spaces=["feature", "sample"],
        regressors=REGS,
        y_forms=["1-D", "2-D"],
        k="complete walk 1..min(n,m)",
        new_data="2 rows of fixed new samples per case",
        seed=seed,
    )


def groups(tier, seed):
    return [dict(label=l, X=X, Ys=Ys) for l, X, Ys in pcov.pcovr_datas(tier, seed)]


def cases(group):
    X = group["X"]
    for Y in group["Ys"]:
        forms = [Y]
        if len(Y[0]) == 1:
            forms.append([row[0] for row in Y])  # the same target as a 1-D vector
        for Yf in forms:
            for mixing in MIXINGS:
                for space in ("feature", "sample"):
                    for spec in REGS:
                        if spec.startswith("pre") and not isinstance(Yf[0], list):
                            continue
                        yield dict(X=X, Y=Yf, mixing=mixing, space=space, reg=spec)
                        if group["label"].startswith("I") and spec in ("default", "linreg"):
                            yield dict(X=X, Y=Yf, mixing=mixing, space=space, reg=spec, int_dtype=True)
                        if group["label"][0] in "GI" and spec in ("default", "linreg") and mixing in (0.0, 0.5) and isinstance(Yf[0], list):
                            yield dict(X=X, Y=Yf, mixing=mixing, space=space, reg=spec, y_int=True)  # integer-typed targets
                        if spec == "default" and isinstance(Yf[0], list):
                            yield dict(X=X, Y=Yf, mixing=mixing, space=space, reg=spec, solver="arpack")
                        if group["label"].startswith("G") and mixing == 0.5 and isinstance(Yf[0], list):
                            yield dict(X=X, Y=Yf, mixing=mixing, space=space, reg=spec, prefit=True)


def check(case):
    r = R()
    X = np.array(case["X"], float)
    Y = np.array(case["Y"], float)
    mixing, space, spec = case["mixing"], case["space"], case["reg"]
    n, m = X.shape
    if case.get("y_int"):
        Y = np.round(Y * 2.0)
    ref = pcov.Ref(X, Y, mixing, spec)
    if ref.condX > 2e3:
        return r.skip("X ill conditioned on its non-zero spectrum")
    Yfit = np.asarray(pcov.fit_targets(spec, X, Y), float)
    one_d = Yfit.ndim == 1
    Y2 = Yfit.reshape(n, -1)
    rng_new = np.array([[0.5 * ((i + 2 * j) % 3) - 0.25 * j for j in range(m)] for i in range(2)], float)
    lam1 = ref.lam1
    nx = max(1.0, float(np.abs(X).max()))
    ny = max(1.0, float(np.abs(Y2).max()))
    cnd = max(1.0, ref.condX)
    prev = None
    r.states = 0
    r.transitions = 0
    nested_pairs = 0
    prev_lx = prev_ly = None
    for k in range(1, min(n, m) + 1):
        solver = case.get("solver", "full")
        if solver == "arpack" and k >= min(n, m):
            break
        est, exc = pcov.fit_pcovr(X, Y, mixing, k, spec, space, solver, prefit=bool(case.get("prefit")), int_dtype=bool(case.get("int_dtype")), y_int=bool(case.get("y_int")))
        r.transitions += 1
        if exc is not None:
            r.fail("crash:%s" % type(exc).__name__, "k=%d: %r" % (k, exc))
            break
        try:
            T = np.asarray(est.transform(X), float)
            pxt, ptx, pty, pxy = (np.asarray(getattr(est, a), float) for a in ("pxt_", "ptx_", "pty_", "pxy_"))
            pred = np.asarray(est.predict(X))
            predT = np.asarray(est.predict(T=T))
            back = np.asarray(est.inverse_transform(T), float)
            again = np.asarray(est.transform(back), float)
            score = float(est.score(X, Yfit))
            Tn = np.asarray(est.transform(rng_new), float)
            pn = np.asarray(est.predict(rng_new))
            pnT = np.asarray(est.predict(T=Tn))
        except Exception as e:
            r.fail("crash:%s" % type(e).__name__, "k=%d: %r" % (k, e))
            break
        r.states += 1
        tolT = 1e-6 * np.sqrt(lam1) * cnd + 1e-12
        if T.shape != (n, k) or np.abs(T - X @ pxt).max() > tolT:
            r.fail("transform-not-X-pxt", "k=%d max diff %.3g" % (k, np.abs(T - X @ pxt).max() if T.shape == (n, k) else -1))
        if np.abs(Tn - rng_new @ pxt).max() > tolT * 10:
            r.fail("transform-new-data-not-X-pxt", "k=%d" % k)
        if pred.shape != predT.shape or np.abs(pred - predT).max() > 1e-6 * ny * cnd:
            r.fail("predict-X-differs-from-predict-T", "k=%d shapes %s %s" % (k, pred.shape, predT.shape))
        if pn.shape != pnT.shape or np.abs(pn - pnT).max() > 1e-5 * ny * cnd:
            r.fail("predict-new-X-differs-from-predict-T", "k=%d" % k)
        if np.abs(pxy.reshape(m, -1) - pxt @ pty.reshape(k, -1)).max() > 1e-6 * max(1.0, np.abs(pxy).max()):
            r.fail("pxy-not-pxt-pty", "k=%d" % k)
        if one_d:
            if pred.ndim != 1 or predT.ndim != 1 or pxy.ndim != 1 or pty.ndim != 1:
                r.fail("1d-target-gives-2d-output", "k=%d predict %s pxy_ %s pty_ %s" % (k, pred.shape, pxy.shape, pty.shape))
        elif pred.shape != Y2.shape:
            r.fail("prediction-shape", "k=%d %s vs %s" % (k, pred.shape, Y2.shape))
        # round trip
        if again.shape != T.shape or np.abs(again - T).max() > tolT * 10:
            r.fail("round-trip-not-idempotent", "k=%d max |transform(inverse_transform(T)) - T| = %.3g" % (k, np.abs(again - T).max()))
        # score
        lx = float(((X - back) ** 2).sum() / (X ** 2).sum())
        ly = float(((Y2 - predT.reshape(n, -1)) ** 2).sum() / (Y2 ** 2).sum()) if (Y2 ** 2).sum() > 0 else None
        if ly is not None and abs(score + lx + ly) > 1e-8 * max(1.0, abs(lx + ly)):
            r.fail("score-not-minus-sum-of-losses", "k=%d score %.10g, -(lX+lY) %.10g" % (k, score, -(lx + ly)))
        # score on new (uncentred) data is defined by the same two relative losses
        try:
            Yn = np.array([[1.5 + 0.5 * ((i + j) % 2) + j for j in range(Y2.shape[1])] for i in range(2)], float)
            Yn_in = Yn[:, 0] if one_d else Yn
            sc_new = float(est.score(rng_new, Yn_in))
            backn = Tn @ ptx
            lxn = float(((rng_new - backn) ** 2).sum() / (rng_new ** 2).sum())
            lyn = float(((Yn[:, : Y2.shape[1]] - np.asarray(pnT, float).reshape(2, -1)) ** 2).sum() / ((Yn_in if not one_d else Yn[:, 0]) ** 2).sum())
            if abs(sc_new + lxn + lyn) > 1e-8 * max(1.0, abs(lxn + lyn)):
                r.fail("score-not-minus-sum-of-losses", "new data, k=%d: score %.10g, -(lX+lY) %.10g" % (k, sc_new, -(lxn + lyn)))
        except Exception as e:
            r.fail("crash:%s" % type(e).__name__, "score on new data, k=%d: %r" % (k, e))
        judge = ref.judgeable(k)
        if judge:
            G = T.T @ T
            want = np.diag([ref.lam[i] if i in ref.kept(k) else 0.0 for i in range(k)])
            if np.abs(G - want).max() > 1e-6 * lam1 * cnd + 1e-12:
                r.fail("latent-coordinates-not-orthogonal-with-eigenvalue-norms", "k=%d T^T T diag %s, eigenvalues %s" % (k, np.diag(G).tolist(), np.diag(want).tolist()))
            # losses of the optimal nested family never increase with k
            if prev_lx is not None and prev is not None and prev["judge"]:
                if lx > prev_lx + 1e-7 * cnd or (ly is not None and prev_ly is not None and ly > prev_ly + 1e-7 * cnd):
                    r.fail("training-loss-increases-with-k", "k=%d lX %.8g -> %.8g, lY %s -> %s" % (k, prev_lx, lx, prev_ly, ly))
            if prev is not None and prev["judge"]:
                Tp = prev["T"]
                # up to sign per component
                ok = True
                for j in range(k - 1):
                    a, b = Tp[:, j], T[:, j]
                    if min(np.abs(a - b).max(), np.abs(a + b).max()) > tolT * 10:
                        ok = False
                        break
                if not ok:
                    r.fail("components-not-nested", "first %d components for k=%d differ from those for k=%d" % (k - 1, k, k - 1))
                nested_pairs += 1
        prev = dict(T=T, judge=judge)
        prev_lx, prev_ly = lx, ly
        if r.violations:
            break
    r.nontrivial = nested_pairs >= 1
    r.count("nested_pairs_judged", nested_pairs)
    r.outcome = [round(float(x), 6) for x in ref.lam[: min(n, m)]]
    return r
