"""C06 — Voronoi FPS is an exact accelerator of FPS.

E3 (environment answers): the wall clock read by the switching-point calibration is replaced
by a scripted clock; every timed comparison "is the sparse update faster than the full one?"
is a choice point; a deviation-bounded DFS (bound iterated up to the bisection depth 7)
produces ALL 2^7 calibration outcomes (plus the 'equal timings' answer). E1 over inputs x
initial point x every n_to_select form x explicit switching points x two-leg warm starts.
In every post-step state (wrapper on `_update_post_selection`) the distance table is compared
with the brute-force table, each point's recorded Voronoi cell must attain its minimum, and
every pick must be a reference-farthest candidate; the selection must equal plain FPS's up to
the first tie and must not depend on the clock."""

import itertools

import numpy as np

from .. import fam, sel
from ..core import R

ID = "C06"
DESIGN_REF = "DESIGN.md §4 C06, §2.1 E3"
EXPLORER = "E3 deviation-bounded environment-answer DFS (scripted clock) x E1 product space, per-step snapshots"
RULE = (
    "cases = (data, initial index, n_to_select form, switching point; non-lattice data also on a USED selector fitted before on other data with the same number of samples) with switching point either explicit "
    "in {1/128, 0.3, 0.5, 1.0} (optionally reached through a two-leg warm start) or calibrated under EVERY "
    "scripted-clock outcome (2^7 faster/slower answer sequences + single 'equal' deviations; thorough: all 3^7); "
    "non-trivial = at least one step whose active set was a strict subset of the candidates (pruning happened) "
    "or, for calibrated cases, at least two distinct calibrated switching points were produced; "
    "states = post-step states judged, transitions = selection steps"
)
ASSUMPTIONS = [
    "the calibration consults the clock only through the name `time` of skmatter.sample_selection._voronoi_fps (asserted: the scripted clock must be read exactly 2 + 14*n_trial times; otherwise the calibrated groups fall back to per-read choice points with deviation bound 2 and the evidence says so)",
    "inputs bounded to <= 12 points in <= 3 dimensions; ties (within 1e-9 of the largest squared norm) make several picks admissible",
    "re-selection once all distinct points are taken is left to C01 (known finding D2)",
]
DEGRADED = set()

EXPLICIT_FF = [1.0 / 128, 0.3, 0.5, 1.0]


def _datas(tier, seed):
    out = []
    lat = [(4, 2, [0, 1, 2])] if tier == "quick" else [(4, 2, [0, 1, 2]), (5, 2, [0, 1]), (4, 3, [0, 1]), (3, 3, [0, 1, 2])]
    for (n, m, V) in lat:
        for i, X in enumerate(fam.lattice(n, m, V)):
            if tier == "quick" and i % 9:
                continue
            out.append(("L%dx%d" % (n, m), X))
    for d, per in ((2, 2), (2, 3), (3, 1)):
        for sd in range(2 if tier == "quick" else 8):
            out.append(("clustered%dd" % d, fam.clustered(d, per, seed * 100 + sd)))
    # two far clusters on a line + duplicates
    out.append(("line", [[0.0, 0.0], [0.25, 0.0], [0.5, 0.0], [10.0, 0.0], [10.25, 0.0], [10.5, 0.0], [20.0, 0.0], [20.5, 0.0]]))
    out.append(("dup", [[0.0, 0.0], [0.0, 0.0], [1.0, 0.0], [1.0, 0.0], [5.0, 5.0], [5.0, 5.0], [5.0, 6.0]]))
    # the same geometry at very small / large scale (an absolute tolerance in the code shows here)
    for sc, tag in ((1e-7, "tiny"), (1e5, "huge")):
        out.append(("clustered2d-%s" % tag, (np.array(fam.clustered(2, 3, seed * 100)) * sc).tolist()))
        out.append(("line-%s" % tag, (np.array([[0.0, 0.0], [0.25, 0.0], [0.5, 0.0], [10.0, 0.0], [10.25, 0.0], [10.5, 0.0], [20.0, 0.0], [20.5, 0.0]]) * sc).tolist()))
    for shp in [(5, 2), (7, 3), (9, 2), (12, 3)]:
        for X in fam.generic_list(shp[0], shp[1], seed, 3 if tier == "quick" else 20):
            out.append(("G%dx%d" % shp, X))
    return out


def bounds(tier, seed):
    return dict(
        data_families=sorted({l for l, _ in _datas(tier, seed)}),
        n_data=len(_datas(tier, seed)),
        explicit_full_fraction=EXPLICIT_FF,
        calibrated="all 2^7 slower/faster answer sequences (deviation bound 7 completed) + 'equal' answers (bound 1 quick / all 3^7 thorough)",
        n_trial_calculation=[1, 2, 4],
        initial="every index (<= 6 points) or {0, N//2, N-1}, 'random'",
        n_to_select="None, every int (<= 6 points) or {2, N//2, N}, fractions 0.5 and 1.0",
        warm="explicit switching points: every two-leg schedule n1 < n",
        seed=seed,
    )


def groups(tier, seed):
    out = []
    for i, (label, X) in enumerate(_datas(tier, seed)):
        out.append(dict(mode="explicit", label=label, X=X, tier=tier))
        if label.startswith("L") and i % (50 if tier == "quick" else 400) != 0:
            continue
        out.append(dict(mode="calibrated", label=label, X=X, tier=tier))
    # behaviour that only exists at scale: block-wise / dtype-boundary code paths (a few large cases)
    out.append(dict(mode="big", label="big9001", big=[9001, 2, seed], tier=tier))
    out.append(dict(mode="big", label="big13000", big=[13000, 3, seed], tier=tier))
    out.append(dict(mode="long-warm", label="warm320", big=[320, 2, seed], tier=tier))
    return out


def _big_points(rec):
    """Deterministic large clustered point set: rec = [n, d, seed]."""
    n, d, sd = rec
    rng = np.random.default_rng([int(sd), n, d, 4242])
    centers = rng.uniform(-20, 20, size=(8, d))
    return np.round((centers[rng.integers(0, 8, size=n)] + rng.standard_normal((n, d))) * 256) / 256


def _inits(N):
    return (list(range(N)) if N <= 6 else [0, N // 2, N - 1]) + ["random"]


def _nforms(N):
    ints = list(range(1, N + 1)) if N <= 6 else sorted({2, N // 2, N})
    return ints + [None, 0.5, 1.0]


def cases(group):
    if group["mode"] == "big":
        n, d, sd = group["big"]
        for ff in (1.0, 0.7):
            yield dict(mode="explicit", big=group["big"], init=0, legs=[8], ff=ff)
        return
    if group["mode"] == "long-warm":
        # 320 points, warm start from 200 to 300 selections (crosses 255 -> 256 selections)
        for ff in (1.0, 0.5):
            yield dict(mode="explicit", big=group["big"], init=0, legs=[200, 300], ff=ff)
            yield dict(mode="explicit", big=group["big"], init=0, legs=[300], ff=ff)
        return
    X = group["X"]
    N = len(X)
    if group["mode"] == "explicit":
        for ff in EXPLICIT_FF:
            for init in _inits(N):
                for n in _nforms(N):
                    yield dict(mode="explicit", X=X, init=init, legs=[n], ff=ff)
                    if not group["label"].startswith("L") and n in (N, None):
                        yield dict(mode="explicit", X=X, init=init, legs=[n], ff=ff, prefit=True)
                    if group["label"].startswith("L") and n == N and init in (0, N - 1):
                        # small-integer coordinates handed over as float32 (every distance is exact in single precision)
                        yield dict(mode="explicit", X=X, init=init, legs=[n], ff=ff, f32=True)
                if init == "random":
                    continue
                top = min(N, 6)
                for n1 in range(1, top):
                    yield dict(mode="explicit", X=X, init=init, legs=[n1, top], ff=ff)
    else:
        thorough = group["tier"] == "thorough"
        for nt in (1, 2, 4):
            for init in ([0, N - 1, "random"] if not thorough else _inits(N)):
                for n in ([N, None] if not thorough else [N, None, max(1, N - 1)]):
                    yield dict(mode="calibrated", X=X, init=init, legs=[n], n_trial=nt, equal="all" if thorough and nt == 1 and N <= 5 and init == 0 and n == N and not group["label"].startswith("L") else "single")


# --------------------------------------------------------------------------------------
# scripted clock (E3)


class ScriptedClock:
    """Answers for the calibration: answer i decides the i-th timed comparison.
    0 = sparse update slower than full, 1 = faster, 2 = exactly equal."""

    DUR = {0: 2.0, 1: 0.5, 2: 1.0}

    def __init__(self, n_trial, answers):
        self.n_trial = n_trial
        self.answers = list(answers)
        self.reads = 0
        self.now = 0.0
        self.points_seen = 0

    def __call__(self):
        k = self.reads
        self.reads += 1
        if k == 0:
            return self.now
        if k == 1:
            self.now += float(self.n_trial)  # average full timing == 1.0
            return self.now
        j = k - 2
        it, within = divmod(j, 2 * self.n_trial)
        if within % 2 == 0:
            if within == 0:
                self.points_seen = it + 1
            return self.now
        a = self.answers[it] if it < len(self.answers) else 0
        self.now += self.DUR[a]
        return self.now


def _clock_module():
    try:
        import skmatter.sample_selection._voronoi_fps as vm
    except Exception:
        return None
    return vm if hasattr(vm, "time") else None


def explore_answers(run, n_alt, bound, alts=None):
    """Deviation-bounded DFS over answer sequences (default answer 0 after the prefix).
    run(prefix) -> number of choice points seen. Yields every explored prefix once."""
    alts = alts or list(range(1, n_alt))
    stack = [[]]
    while stack:
        prefix = stack.pop()
        depth = run(prefix)
        dev = sum(1 for a in prefix if a != 0)
        if dev >= bound:
            continue
        for i in range(len(prefix), depth):
            for a in alts:
                stack.append(prefix + [0] * (i - len(prefix)) + [a])


# --------------------------------------------------------------------------------------


class LazyD:
    """Brute-force squared distances computed on demand (columns / element pairs): large point sets."""

    def __init__(self, X):
        self.X = np.asarray(X, float)

    def __getitem__(self, key):
        a, b = key
        if isinstance(a, slice):
            diff = self.X - self.X[int(b)]
            return (diff * diff).sum(axis=1)
        diff = self.X[np.asarray(a)] - self.X[np.asarray(b)]
        return (diff * diff).sum(axis=1)


def _snapshot(s):
    cell = getattr(s, "vlocation_of_idx", None)
    return (np.array(s.hausdorff_, float, copy=True), None if cell is None else np.array(cell, copy=True))


def _run_voronoi(X, init, legs, ff, n_trial=4, prefit=False):
    """Fit the real VoronoiFPS (cold + optional warm legs); returns (selector, recorder, active sizes, exc)."""
    params = dict(initialize=init, n_to_select=legs[0], full_fraction=ff, n_trial_calculation=n_trial)
    s = sel.make("VoronoiFPS", "sample", **params)
    if prefit:  # a USED selector: fitted before on other data with the same number of samples
        Xo = X[::-1, ::-1].copy() * 0.75 + 0.125 * np.abs(X).max()
        _, exc0 = sel.fit_quiet(s, Xo, None)
        if exc0 is not None:
            return s, sel.StepRecorder(s, _snapshot), [], exc0
        sel.query_all(s, Xo)
        Xo[...] = X  # the caller refills the same array object in place and passes it again
        X = Xo
    rec = sel.StepRecorder(s, _snapshot)
    active = []
    ga = getattr(s, "_get_active", None)
    if callable(ga):
        def wrapped(Xa, last):
            a = ga(Xa, last)
            active.append(len(a))
            return a
        s._get_active = wrapped
    exc = None
    for i, n in enumerate(legs):
        s.n_to_select = n
        if i > 0:
            sel.query_all(s, X)  # read-only accessors between the legs
            # a second live VoronoiFPS, fitted on other points of the same number between the legs
            sibling = sel.sibling_fit("VoronoiFPS", "sample", X, None, dict(initialize=init if not isinstance(init, str) else 0, full_fraction=ff, n_trial_calculation=n_trial))  # noqa: F841
        _, exc = sel.fit_quiet(s, X, None, warm_start=i > 0)
        if exc is not None:
            break
    return s, rec, active, exc


def _judge_run(r, X, D, tol, s, rec, active, init, n_expected, tag):
    """Refinement of one complete run against brute-force FPS. Returns (idx, first_tie)."""
    N = len(X)
    idx = [int(i) for i in np.asarray(s.selected_idx_)]
    if len(idx) != n_expected:
        r.fail("selection-length", "%s: %d selections, expected %d" % (tag, len(idx), n_expected))
        return idx, 0
    if any(i < 0 or i >= N for i in idx):
        r.fail("index-out-of-range", "%s %s" % (tag, idx))
        return idx, 0
    steps = rec.steps if rec.ok and len(rec.steps) == len(idx) else None
    if rec.ok and steps is None:
        r.fail("step-count", "%s: %d recorded steps for %d selections" % (tag, len(rec.steps), len(idx)))
    h = np.full(N, np.inf)
    first_tie = None
    true_sel = []
    for t, pick in enumerate(idx):
        if t >= 1:
            best = h.max()
            if not (h[pick] >= best - tol):
                r.fail("not-farthest", "%s step %d picked %d (min-dist %.6g) but the farthest candidate has %.6g" % (tag, t, pick, h[pick], best))
            if first_tie is None and int((h >= best - tol).sum()) > 1:
                first_tie = t
        elif init != "random" and pick != init:
            r.fail("initial-pick-differs", "%s requested %s got %s" % (tag, init, pick))
        true_sel.append(h[pick])
        h = np.minimum(h, D[:, pick])
        if steps is not None:
            p2, snap = steps[t]
            if snap is not None:
                table, cell = snap
                if table.shape != h.shape or not np.all(np.abs(table - h) <= tol):
                    r.fail("table-wrong-after-step", "%s step %d: table %s, brute force %s" % (tag, t, np.round(table, 8).tolist(), np.round(h, 8).tolist()))
                    return idx, first_tie
                if cell is not None:
                    cell = np.asarray(cell)
                    if cell.shape != (N,) or cell.min() < 0 or cell.max() > t:
                        r.fail("cell-out-of-range", "%s step %d cells %s" % (tag, t, cell.tolist()))
                    else:
                        centre = np.array(idx)[cell]
                        dc = D[np.arange(N), centre]
                        if not np.all(np.abs(dc - h) <= tol):
                            r.fail("cell-does-not-attain-minimum", "%s step %d cells %s dist-to-cell-centre %s min %s" % (tag, t, cell.tolist(), np.round(dc, 8).tolist(), np.round(h, 8).tolist()))
    try:
        table = np.asarray(s.get_distance(), float)
        if table.shape != h.shape or not np.all(np.abs(table - h) <= tol):
            r.fail("final-table-wrong", "%s: %s vs %s" % (tag, np.round(table, 8).tolist(), np.round(h, 8).tolist()))
        if len(set(idx)) == len(idx):
            sd = np.asarray(s.get_select_distance(), float)
            ref = np.array(true_sel)
            fin = np.isfinite(ref)
            if sd.shape != ref.shape or not np.array_equal(np.isinf(sd), np.isinf(ref)) or not np.all(np.abs(sd[fin] - ref[fin]) <= tol):
                r.fail("select-distance-wrong", "%s: %s vs %s" % (tag, np.round(sd, 8).tolist(), np.round(ref, 8).tolist()))
    except Exception as e:
        r.fail("distance-accessor-crash:%s" % type(e).__name__, repr(e))
    return idx, first_tie


def _fps_reference(X, init, n):
    s = sel.make("FPS", "sample", initialize=init, n_to_select=n)  # same default random_state
    _, exc = sel.fit_quiet(s, X, None)
    return None if exc is not None else [int(i) for i in s.selected_idx_]


def check(case):
    r = R()
    if "big" in case:  # large point sets are generated from their recipe (too large to write out literally)
        X = _big_points(case["big"])
    else:
        X = np.array(case["X"], float)
    N = len(X)
    if N > 400:
        D, scale = LazyD(X), float((X * X).sum(axis=1).max())
    else:
        D, scale, _ = sel.distance_matrix("VoronoiFPS", "sample", X)
    tol = 1e-9 * scale + 1e-300
    init, legs = case["init"], case["legs"]
    n_final = sel.resolve_n(legs[-1], N)
    if n_final is None or n_final < 1:
        return r.skip("n_to_select resolves to no selection (documented rejection)")
    r.states = 0
    r.transitions = 0
    pruned_steps = 0

    if case["mode"] == "explicit":
        s, rec, active, exc = _run_voronoi(X.astype(np.float32) if case.get("f32") else X, init, legs, case["ff"], prefit=bool(case.get("prefit")))
        if exc is not None:  # every configuration of this alphabet is admissible
            return r.fail("crash:%s" % type(exc).__name__, "%r" % exc)
        idx, tie = _judge_run(r, X, D, tol, s, rec, active, init, n_final, "ff=%g legs=%s" % (case["ff"], legs))
        r.states += len(idx)
        r.transitions += len(idx)
        pruned_steps += sum(1 for a in active if a < N)
        ref = _fps_reference(X, init, legs[-1])
        if ref is None:
            r.fail("plain-FPS-rejects-what-VoronoiFPS-accepts", "")
        else:
            upto = len(idx) if tie is None else tie
            if ref[:upto] != idx[:upto] or len(ref) != len(idx):
                r.fail("differs-from-plain-FPS", "VoronoiFPS %s, FPS %s, first tie at %s" % (idx, ref, tie))
        r.nontrivial = pruned_steps > 0
        r.count("pruned_steps", pruned_steps)
        r.outcome = idx
        return r

    # ---- calibrated switching point under every clock outcome
    vm = _clock_module()
    if vm is None:
        DEGRADED.add("no module-level `time` in _voronoi_fps: calibrated path not explored")
        return r.skip("clock seam not available")
    nt = case["n_trial"]
    results = {}
    real_time = vm.time
    expected_reads = 2 + 14 * nt
    fallback = []

    def run(prefix):
        clock = ScriptedClock(nt, prefix)
        vm.time = clock
        try:
            s, rec, active, exc = _run_voronoi(X, init, legs, None, n_trial=nt)
        finally:
            vm.time = real_time
        if clock.reads != expected_reads:
            fallback.append(clock.reads)
        if exc is not None:
            r.fail("crash:%s" % type(exc).__name__, "answers %s: %r" % (prefix, exc))
            return 7
        key = tuple(prefix + [0] * (7 - len(prefix)))
        idx, tie = _judge_run(r, X, D, tol, s, rec, active, init, n_final, "clock answers %s" % (list(key),))
        results[key] = (idx, tie, float(s.full_fraction), sum(1 for a in active if a < N))
        r.states += len(idx)
        r.transitions += len(idx)
        return max(clock.points_seen, 0) if clock.reads == expected_reads else 7

    explore_answers(run, 2, 7, alts=[1])
    if case.get("equal") == "all":
        explore_answers(run, 3, 7, alts=[1, 2])
    else:
        explore_answers(run, 3, 1, alts=[2])
    if fallback:
        DEGRADED.add("calibration read the clock %s times, expected %d: outcomes explored through the scripted answers only where the structure matched" % (sorted(set(fallback))[:3], expected_reads))
        r.count("clock_read_count_unexpected")
    r.count("clock_outcomes", len(results))
    # the result must not depend on timing (up to the first tie)
    ref = _fps_reference(X, init, legs[-1])
    base = None
    for key in sorted(results):
        idx, tie, ffv, pr = results[key]
        pruned_steps += pr
        upto = len(idx) if tie is None else tie
        if ref is not None and (ref[:upto] != idx[:upto] or len(ref) != len(idx)):
            r.fail("differs-from-plain-FPS", "answers %s: VoronoiFPS %s, FPS %s, first tie %s" % (list(key), idx, ref, tie))
            break
        if base is None:
            base = (idx, tie)
        else:
            u = min(upto, len(base[0]) if base[1] is None else base[1])
            if idx[:u] != base[0][:u]:
                r.fail("selection-depends-on-clock", "answers %s give %s, all-slower gives %s" % (list(key), idx, base[0]))
                break
    ffs = sorted({v[2] for v in results.values()})
    r.count("distinct_switching_points_max", 0)
    r.nontrivial = len(ffs) >= 2
    r.count("pruned_steps", pruned_steps)
    r.outcome = [base[0] if base else None, len(ffs)]
    if len(results) >= 128 and not fallback:
        r.count("cases_with_all_128_outcomes")
        if len(ffs) != 128:
            r.count("cases_with_fewer_than_128_switching_points")
    return r
