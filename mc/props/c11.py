"""C11 — StandardFlexibleScaler standardises w.r.t. the weighted training distribution.

E1 over (data: ternary lattices with per-column offsets / scales, generic matrices, near-constant
columns) x (with_mean, with_std, column_wise) all 8 x weights in {None} + ALL w in {0,1,2,3}^n
with >= 2 non-zero entries x (rtol, atol) settings x new data. Oracle: weighted column means 0
/ weighted variance 1 per column resp. in total, computed from first principles; inverse o
transform = id (also on new data); integer weights == repeated rows; unweighted column-wise ==
sklearn StandardScaler; invariant under a prior shift (centring on) and, up to sign, under a
prior uniform rescaling (scaling on); rejection (ValueError) iff the variance is below
atol + |mean|*rtol, judged a factor 10 away from the boundary."""

import itertools

import numpy as np

from .. import fam
from ..core import R

ID = "C11"
DESIGN_REF = "DESIGN.md §4 C11"
EXPLORER = "E1 product-space"
RULE = (
    "cases = data x 8 flag combinations x weight vector x tolerance setting; weights: None and every vector of {0,1,2,3}^4 "
    "with >= 2 non-zero entries (243) for 4-row data, a menu for larger data; non-trivial = non-uniform weights with at "
    "least one zero or repeated multiplicity and a successful fit, or a judged rejection; states = fitted scalers judged"
)
ASSUMPTIONS = [
    "population (ddof=0) weighted variance, as sklearn's StandardScaler uses",
    "rejection is judged only when the variance is a factor 10 away from the threshold; in whole-matrix mode with rtol != 0 a verdict is demanded only where every reading of 'mean' (mean of column means, largest |column mean|, sum of |column means|) agrees",
    "closeness 1e-9 relative to the data scale",
]
DEGRADED = set()
FLAGS = list(itertools.product([True, False], repeat=3))
TOLS = [(0.0, 1e-12), (0.0, 1e-6), (1e-3, 1e-12)]


def _datas(tier, seed):
    out = []
    step = 81 if tier == "quick" else 9
    for i, X in enumerate(fam.lattice(4, 2, [0, 1, 2])):
        if i % step == 4:
            Xa = np.array(X, float) * np.array([3.0, 0.25]) + np.array([-5.0, 100.0])
            out.append(("L4x2", Xa.tolist()))
    for i, X in enumerate(fam.lattice(4, 3, [0, 1])):
        if i % (step * 5) == 7:
            out.append(("L4x3", (np.array(X, float) * np.array([1.0, 1e3, 1e-3])).tolist()))
    for shp in [(4, 2), (5, 3), (7, 4)]:
        for X in fam.generic_list(shp[0], shp[1], seed, 2 if tier == "quick" else 10):
            out.append(("G%dx%d" % shp, (np.array(X) + np.arange(shp[1]) * 2.5).tolist()))
    # near-constant columns: variance 0, 1e-14, 1e-9, 1e-3 around a large mean
    base = np.array([[1.0, 2.0], [2.0, 0.5], [0.5, 1.5], [3.0, 1.0]])
    for var in (0.0, 1e-14, 1e-9, 1e-3):
        X = base.copy()
        sd = np.sqrt(var)
        X[:, 1] = 7.0 + sd * np.array([1.0, -1.0, 1.0, -1.0])
        out.append(("nearconst%g" % var, X.tolist()))
        Xall = 7.0 + sd * np.array([[1.0, -1.0], [-1.0, 1.0], [1.0, 1.0], [-1.0, -1.0]]) / np.sqrt(2)
        out.append(("allnearconst%g" % var, Xall.tolist()))
    return out


def _weights(n, tier, full):
    out = [None]
    if n == 4 and full:
        out += [list(w) for w in itertools.product([0, 1, 2, 3], repeat=4) if sum(1 for x in w if x) >= 2]
    else:
        out += [[1] * n, [(i % 3) for i in range(n)] if n > 2 else [1, 2], [((i * 2 + 1) % 4) for i in range(n)], [0.25 + 0.5 * (i % 2) + 0.125 * i for i in range(n)]]
        out = [w for w in out if w is None or sum(1 for x in w if x) >= 2]
    return out


def bounds(tier, seed):
    ds = _datas(tier, seed)
    return dict(
        data={l: sum(1 for a, _ in ds if a == l) for l in sorted({l for l, _ in ds})},
        flags="all 8 (with_mean, with_std, column_wise)",
        weights="None + all 243 vectors of {0,1,2,3}^4 with >= 2 non-zero entries (4-row lattice data), menu of 4 otherwise",
        tolerances=TOLS,
        seed=seed,
    )


def _big(spec):
    n, m, sd = spec
    rng = np.random.default_rng([int(sd), n, m, 1111])
    return np.round(rng.standard_normal((n, m)) * np.array([1.0, 0.5, 2.0, 0.25][:m]) * 256) / 256 + np.arange(m) * 1.5


def groups(tier, seed):
    out = [dict(label=l, X=X, tier=tier) for l, X in _datas(tier, seed)]
    # many rows (block-wise / chunked accumulation only exists at this size): 3000 x 3
    out.append(dict(label="big3000x3", big=[3000, 3, seed], tier=tier))
    return out


def cases(group):
    if "big" in group:
        n = group["big"][0]
        for flags in FLAGS:
            for w in _weights(n, group["tier"], False):
                yield dict(big=group["big"], with_mean=flags[0], with_std=flags[1], column_wise=flags[2], w=w, rtol=0.0, atol=1e-12)
        return
    X = group["X"]
    n = len(X)
    full = group["label"] == "L4x2"
    for flags in FLAGS:
        for w in _weights(n, group["tier"], full):
            tols = TOLS if (w is None or not full or sum(w) == 6) else TOLS[:1]
            for (rtol, atol) in tols:
                yield dict(X=X, with_mean=flags[0], with_std=flags[1], column_wise=flags[2], w=w, rtol=rtol, atol=atol)
            if w is None or not full or sum(w) in (5, 6):
                yield dict(X=X, with_mean=flags[0], with_std=flags[1], column_wise=flags[2], w=w, rtol=0.0, atol=1e-12, used=True)


def _wstats(X, w):
    w = np.ones(len(X)) if w is None else np.asarray(w, float)
    w = w / w.sum()
    mean = (w[:, None] * X).sum(axis=0)
    var = (w[:, None] * (X - mean) ** 2).sum(axis=0)
    return w, mean, var


def check(case):
    from skmatter.preprocessing import StandardFlexibleScaler

    r = R()
    X = _big(case["big"]) if "big" in case else np.array(case["X"], float)
    n, m = X.shape
    w = case["w"]
    wm, ws, cw, rtol, atol = case["with_mean"], case["with_std"], case["column_wise"], case["rtol"], case["atol"]
    wn, mean, var = _wstats(X, w)
    scaler = StandardFlexibleScaler(with_mean=wm, with_std=ws, column_wise=cw, rtol=rtol, atol=atol)
    try:
        Xbuf = X.copy()
        if case.get("used"):  # a USED scaler: fitted before on other data of the same shape, with the other weight form
            Xbuf = np.ascontiguousarray(X[::-1] * 1.5 + np.arange(m) + 3.0, dtype=float)
            try:
                scaler.fit(Xbuf, sample_weight=np.arange(1.0, n + 1.0) if w is None else None)
            except ValueError:
                pass
            # ... and once more with the SAME weight form, held in the caller's own weight buffer
            Xbuf[...] = X[::-1] * 0.5 - 1.0
            wbuf = None if w is None else np.ascontiguousarray(np.array(w, float)[::-1] * 2.0 + 1.0)
            try:
                scaler.fit(Xbuf, sample_weight=wbuf)
            except ValueError:
                pass
            Xbuf[...] = X  # the caller refills the same array objects
            if wbuf is not None:
                wbuf[...] = np.array(w, float)
        else:
            wbuf = None if w is None else np.array(w, float)
        scaler.fit(Xbuf, sample_weight=wbuf)
        rejected = False
    except ValueError:
        rejected = True
    except Exception as e:
        return r.fail("crash:%s" % type(e).__name__, repr(e))
    # ---- rejection semantics
    if ws:
        if cw:
            thr = atol + np.abs(mean) * rtol
            must_reject = bool((var < thr / 10).any())
            must_accept = bool((var > thr * 10).all())
        else:
            readings = [abs(mean.mean()), np.abs(mean).max(), np.abs(mean).sum()]
            vs = var.sum()
            must_reject = vs < (atol + min(readings) * rtol) / 10
            must_accept = vs > (atol + max(readings) * rtol) * 10
        if must_reject and not rejected:
            return r.fail("near-zero-variance-not-rejected", "variance %s, atol %g rtol %g" % (var.tolist(), atol, rtol))
        if must_accept and rejected:
            return r.fail("rejected-although-variance-above-tolerance", "variance %s, atol %g rtol %g" % (var.tolist(), atol, rtol))
        if rejected:
            r.nontrivial = must_reject
            r.count("judged_rejections" if must_reject else "boundary_rejections")
            r.outcome = "rejected"
            return r
        if not must_accept:
            r.count("boundary_accepts")
            return r  # scale may be arbitrarily small: nothing numeric is judged
    elif rejected:
        return r.fail("rejected-without-scaling", "with_std=False must not reject")
    scale = float(np.abs(X).max()) or 1.0
    Xc = X.copy()
    T = np.array(scaler.transform(Xc), float)
    if not np.array_equal(Xc, X):
        return r.fail("transform-modifies-the-callers-array", "flags mean=%s std=%s column_wise=%s" % (wm, ws, cw))
    T_again = np.asarray(scaler.transform(Xc), float)
    if not np.array_equal(T_again, T):
        return r.fail("second-transform-differs-from-the-first", "max diff %.3g" % np.abs(T_again - T).max())
    if w is not None:
        # weights are normalised internally: the same weights at a tiny overall scale give the same scaler
        s_tiny = StandardFlexibleScaler(with_mean=wm, with_std=ws, column_wise=cw, rtol=rtol, atol=atol)
        try:
            s_tiny.fit(X.copy(), sample_weight=np.array(w, float) * 1e-9)
            Tt = np.asarray(s_tiny.transform(X.copy()), float)
            if np.abs(Tt - T).max() > 1e-8 * max(1.0, np.abs(T).max()):
                return r.fail("weights-not-scale-free", "weights * 1e-9 change the transformed data by %.3g" % np.abs(Tt - T).max())
        except ValueError:
            return r.fail("weights-not-scale-free", "weights * 1e-9 are rejected")
    # ---- weighted moments of the transformed training data
    _, tmean, tvar = _wstats(T, w)
    sd_min = np.sqrt(var.min()) if cw else np.sqrt(var.sum())
    tolm = 1e-9 * scale / max(sd_min, 1e-300) if ws else 1e-9 * scale
    if wm and np.abs(tmean).max() > tolm:
        r.fail("weighted-mean-not-zero", "weighted column means %s" % tmean.tolist())
    if ws:
        if cw and np.abs(tvar - 1).max() > 1e-8:
            r.fail("weighted-column-variance-not-one", "%s" % tvar.tolist())
        if not cw and abs(tvar.sum() - 1) > 1e-8:
            r.fail("weighted-total-variance-not-one", "%.12g" % tvar.sum())
    else:
        want = X - (mean if wm else 0.0)
        if np.abs(T - want).max() > 1e-9 * scale:
            r.fail("scaling-off-changes-scale", "")
    if not wm and not ws and np.abs(T - X).max() > 0:
        r.fail("identity-configuration-changes-data", "")
    # ---- round trip, also on new data
    new = np.array([[0.5 * ((i + 2 * j) % 3) + j for j in range(m)] for i in range(3)], float) * (np.abs(X).max(axis=0) + 1.0)
    for A in (X, new):
        back = np.asarray(scaler.inverse_transform(np.asarray(scaler.transform(A.copy()))), float)
        if np.abs(back - A).max() > 1e-9 * max(scale, float(np.abs(A).max())):
            r.fail("inverse-transform-does-not-undo-transform", "max diff %.3g" % np.abs(back - A).max())
            break
    Tn = np.asarray(scaler.transform(new.copy()), float)
    ref_scale = (np.sqrt(var) if cw else np.sqrt(var.sum())) if ws else 1.0
    want_new = (new - (mean if wm else 0.0)) / ref_scale
    if np.abs(Tn - want_new).max() > 1e-8 * max(1.0, np.abs(want_new).max()):
        r.fail("new-data-not-standardised-with-training-statistics", "max diff %.3g" % np.abs(Tn - want_new).max())
    # ---- integer weights == repeated rows
    if w is not None and all(float(x).is_integer() for x in w):
        rep = np.repeat(X, [int(x) for x in w], axis=0)
        if len(rep) >= 2:
            s2 = StandardFlexibleScaler(with_mean=wm, with_std=ws, column_wise=cw, rtol=rtol, atol=atol)
            try:
                s2.fit(rep.copy())
                T2 = np.asarray(s2.transform(X.copy()), float)
                if np.abs(T2 - T).max() > 1e-8 * max(1.0, np.abs(T).max()):
                    r.fail("integer-weights-differ-from-repeated-rows", "max diff %.3g" % np.abs(T2 - T).max())
            except ValueError:
                r.fail("repeated-rows-rejected-but-weights-accepted", "")
    # ---- unweighted column-wise == sklearn StandardScaler
    if w is None and cw:
        from sklearn.preprocessing import StandardScaler

        sk = StandardScaler(with_mean=wm, with_std=ws).fit(X)
        if np.abs(sk.transform(X) - T).max() > 1e-8 * max(1.0, np.abs(T).max()):
            r.fail("differs-from-sklearn-StandardScaler", "max diff %.3g" % np.abs(sk.transform(X) - T).max())
    # ---- invariances
    if wm:
        s3 = StandardFlexibleScaler(with_mean=wm, with_std=ws, column_wise=cw, rtol=0, atol=0 if not ws else 1e-300)
        shift = np.arange(1, m + 1) * 2.5
        try:
            s3.fit(X + shift, sample_weight=None if w is None else np.array(w, float))
            T3 = np.asarray(s3.transform(X + shift), float)
            if np.abs(T3 - T).max() > 1e-7 * max(1.0, np.abs(T).max()) * max(1.0, scale / max(sd_min, 1e-300) * 1e-2):
                r.fail("not-shift-invariant", "max diff %.3g" % np.abs(T3 - T).max())
        except ValueError:
            pass
    if ws:
        for c in (-2.0, 0.5):
            s4 = StandardFlexibleScaler(with_mean=wm, with_std=ws, column_wise=cw, rtol=0, atol=1e-300)
            try:
                s4.fit(X * c, sample_weight=None if w is None else np.array(w, float))
                T4 = np.asarray(s4.transform(X * c), float)
                if np.abs(T4 - np.sign(c) * T).max() > 1e-8 * max(1.0, np.abs(T).max()):
                    r.fail("not-rescaling-invariant-up-to-sign", "factor %g: max diff %.3g" % (c, np.abs(T4 - np.sign(c) * T).max()))
            except ValueError:
                pass
    r.states = 1
    r.nontrivial = w is not None and (0 in w or len(set(w)) > 1)
    r.outcome = np.round(T, 6).tolist()
    return r
