"""C17 — SparseKDE is a well-formed mixture consistent with its Voronoi assignment.

E1 over descriptor clouds (two-mode / anisotropic generic, collinear and planar = singular
local covariance, lattices with duplicates) x weights {None, generic, small integers} x grids
(EVERY k-subset of the first 6 descriptors, k = 2..3(4), FPS-like spread subsets, off-sample
points) x fpoints / fspread settings x cells {None, (4,4), (2pi,2pi), anisotropic} x queries
(near, far) x transformations {translation, permutations of descriptors / grid, integer image
shifts of descriptors, grid points, queries}. Oracle: assignment = arg-min over grid distances
under the (periodic) metric, grid weights = sums of assigned descriptor weights, total 1; every
bandwidth finite, symmetric, positive definite provided another grid point carries
non-negligible local weight; score_samples = log of the documented mixture recomputed
independently from bandwidth_ (far / near branch, log-sum-exp, normalisation), score its sum;
invariances at non-descriptor queries."""

import itertools

import numpy as np

from .. import fam
from ..core import R

ID = "C17"
DESIGN_REF = "DESIGN.md §4 C17"
EXPLORER = "E1 product-space against an independent mixture model + metamorphic invariances"
RULE = (
    "one case = (descriptor cloud, weights, grid, localisation setting, cell); inside: fit, assignment / weight / bandwidth "
    "clauses, the mixture formula at near and far queries, then translation, 3 permutations, and every single-point image "
    "shift (+-1 cell per axis) of a descriptor, a grid point and the queries; non-trivial = at least one query took the near "
    "branch and one the far branch, or at least 3 grid points with distinct weights; states = fitted models judged"
)
ASSUMPTIONS = [
    "the localisation weights are read through a harness-side wrapper on the instance's bandwidth estimator; the positive-definiteness clause is judged only when at least two grid points carry a share >= 1e-3 of the local weight (the property's proviso 'the localisation reaches at least one other grid point')",
    "descriptors closer than 1e-9 (relative) to two grid points are ties: the case is skipped; queries exactly half a cell from a descriptor / grid point along an axis are not compared under transformations; invariances are not demanded when a local covariance is ill conditioned (1/(1 - sum share^2) > 1e6) or a grid weight equals fpoints",
    "queries are never equal to a descriptor; closeness 1e-8 on log-densities (1e-6 for invariances)",
    "the form of the bandwidth heuristics (Silverman factor, shrinkage) is not asserted, only finiteness / symmetry / definiteness",
]
DEGRADED = set()
CASE_TIMEOUT = 30


def _clouds(tier, seed):
    out = []
    for j in range(1 if tier == "quick" else 4):
        rng = np.random.default_rng([seed, 17, j])
        a = np.round(rng.standard_normal((7, 2)) * 0.4 * 64) / 64
        b = np.round((rng.standard_normal((7, 2)) * np.array([0.6, 0.2]) + np.array([2.5, 1.5])) * 64) / 64
        out.append(("twomode2d", np.vstack([a, b]).tolist()))
        c = np.round((rng.standard_normal((12, 2)) @ np.array([[1.0, 0.8], [0.0, 0.15]])) * 64) / 64
        out.append(("aniso2d", (c + 1.0).tolist()))
        t = np.round(rng.uniform(0, 3, size=10) * 64) / 64
        out.append(("collinear2d", np.stack([t, 0.5 * t + 0.25], axis=1).tolist()))
        p = np.round(rng.standard_normal((10, 2)) * 64) / 64
        out.append(("planar3d", np.hstack([p, (p[:, :1] - p[:, 1:2])]).tolist()))
        d3 = np.round(rng.standard_normal((12, 3)) * 0.7 * 64) / 64
        d3[6:] += np.array([2.0, 2.0, 0.0])
        out.append(("twomode3d", d3.tolist()))
    # three TIGHT anisotropic clusters (spread 2^-7, centres O(1) apart), coordinates on a 2^-20 lattice so that a
    # translation by 2^10 is exact: narrow kernels far from the origin
    for j in range(1 if tier == "quick" else 3):
        rng = np.random.default_rng([seed, 1717, j])
        cen = np.array([[0.0, 0.0, 0.0], [0.5, -0.25, 0.25], [-0.25, 0.5, 0.5]])
        sc = np.array([[1.0, 0.5, 0.25], [0.25, 1.0, 0.5], [0.5, 0.25, 1.0]]) * 2.0 ** -7
        pts = np.array([cen[i % 3] + rng.standard_normal(3) * sc[i % 3] for i in range(18)])
        out.append(("tight3d", (np.round(pts * 2 ** 20) / 2 ** 20).tolist()))
    lat = [[float(i % 3), float(i // 3)] for i in range(9)] + [[0.0, 0.0], [2.0, 2.0], [1.0, 1.0]]
    out.append(("lattice-dups", lat))
    return out


def _big_cloud(seed):
    """5000 weighted descriptors in 2-D, three modes (block-wise code paths only exist at this size)."""
    rng = np.random.default_rng([seed, 5000, 17])
    c = np.array([[0.0, 0.0], [4.0, 1.0], [1.0, 5.0]])
    D = np.round((c[rng.integers(0, 3, size=5000)] + rng.standard_normal((5000, 2)) * 0.6) * 256) / 256
    w = 0.25 + (np.arange(5000) % 7) * 0.125
    G = np.array([[0.1, -0.05], [3.9, 1.1], [1.05, 4.9], [2.0, 2.0]])
    return D, w, G


def _weights(n):
    light = [1e-3 if i < n // 2 else 1.0 for i in range(n)]  # one mode three orders of magnitude lighter
    return [None, [0.5 + 0.25 * (i % 3) + 0.05 * i for i in range(n)], [float(1 + (i * 2) % 3) for i in range(n)], light]


def _grids(D, tier):
    n = len(D)
    out = []
    ks = (2, 3) if tier == "quick" else (2, 3, 4)
    for k in ks:
        for sub in itertools.combinations(range(6), k):
            out.append(("subset", [D[i] for i in sub]))
    out.append(("spread", [D[0], D[n // 2], D[n - 1], D[n // 3]]))
    Da = np.array(D, float)
    c = Da.mean(axis=0)
    off = [c + 0.37 * (i + 1) * np.array([1.0, -0.6, 0.3][: Da.shape[1]]) * (1 if i % 2 else -1) for i in range(3)]
    out.append(("offsample", [o.tolist() for o in off]))
    # integer-valued grid points (lattice positions), handed over with an integer dtype
    ci = np.round(c).astype(int)
    out.append(("intgrid", [(ci + np.array(([0, 0, 0], [2, 1, 0], [-1, 2, 1])[i][: Da.shape[1]])).astype(float).tolist() for i in range(3)]))
    return out


def _cells(d):
    if d == 2:
        return [None, [4.0, 4.0], [2 * np.pi, 2 * np.pi], [3.0, 5.0]]
    return [None, [4.0, 4.0, 4.0]]


def _settings():
    return [dict(fpoints=0.15), dict(fpoints=0.4), dict(fpoints=0.8), dict(fspread=0.1), dict(fspread=0.5), dict(fspread=2.0)]


def bounds(tier, seed):
    cl = _clouds(tier, seed)
    return dict(
        clouds={l: sum(1 for a, _ in cl if a == l) for l in sorted({l for l, _ in cl})},
        weights=["None", "generic", "small integers"],
        grids="every k-subset of the first 6 descriptors (k = 2..3 quick, 2..4 thorough), a spread subset, 3 off-sample points",
        settings=_settings(),
        cells="None, (4,4), (2pi,2pi), (3,5) in 2-D; None, (4,4,4) in 3-D",
        transformations="translation, 3 permutations (descriptors / grid), +-1 cell image shifts of one descriptor / one grid point / all queries per axis",
        seed=seed,
    )


def groups(tier, seed):
    out = [dict(label="big5000", D=None, grid_label="big", G=None, tier=tier, seed=seed)]
    for label, D in _clouds(tier, seed):
        for gl, G in _grids(D, tier):
            out.append(dict(label=label, D=D, grid_label=gl, G=G, tier=tier))
    return out


def cases(group):
    if group["label"] == "big5000":
        yield dict(label="big5000", big_seed=group["seed"], setting=dict(fpoints=0.4), cell=None)
        return
    D, G = group["D"], group["G"]
    d = len(D[0])
    for wi, w in enumerate(_weights(len(D))):
        for si, st in enumerate(_settings()):
            for ci, cell in enumerate(_cells(d)):
                if group["tier"] == "quick" and group["grid_label"] == "subset" and (wi + si + ci) % 3:
                    continue
                if group["grid_label"] == "intgrid":
                    yield dict(label=group["label"], D=D, G=G, w=w, setting=st, cell=cell, int_grid=True)
                    continue
                yield dict(label=group["label"], D=D, G=G, w=w, setting=st, cell=cell)
                if (wi + si + ci) % 4 == 1:
                    yield dict(label=group["label"], D=D, G=G, w=w, setting=st, cell=cell, used=True)


# --------------------------------------------------------------------------------------


def _sq(A, B, cell):
    A, B = np.asarray(A, float), np.asarray(B, float)
    diff = A[:, None, :] - B[None, :, :]
    if cell is not None:
        c = np.asarray(cell, float)
        a = np.mod(np.abs(diff), c)
        diff = np.minimum(a, c - a)
    return (diff ** 2).sum(axis=2)


def _wrap(diff, cell):
    if cell is None:
        return diff
    c = np.asarray(cell, float)
    return diff - np.round(diff / c) * c


def _lse(v):
    v = np.asarray(v, float)
    m = v.max()
    if not np.isfinite(m):
        return m
    return m + np.log(np.exp(v - m).sum())


def _mixture(Q, D, w, G, H, labels, cell):
    """Independent evaluation of the documented mixture from the bandwidths."""
    Q, D, G = np.asarray(Q, float), np.asarray(D, float), np.asarray(G, float)
    dim = D.shape[1]
    cut = (3 * (np.sqrt(dim) + 1)) ** 2
    W = np.array([w[labels == j].sum() for j in range(len(G))])
    out, branches = [], []
    for q in Q:
        terms = []
        near = far = 0
        for j in range(len(G)):
            Hi = np.linalg.inv(H[j])
            logdet = np.linalg.slogdet(H[j])[1]
            norm = dim * np.log(2 * np.pi) + logdet
            dq = _wrap(q - G[j], cell)
            m2 = float(dq @ Hi @ dq)
            if m2 > cut:
                far += 1
                if W[j] > 0:
                    terms.append(-0.5 * (norm + m2) + np.log(W[j]))
                else:
                    terms.append(-np.inf)
            else:
                near += 1
                for k in np.where(labels == j)[0]:
                    dk = _wrap(D[k] - q, cell)
                    terms.append(-0.5 * (norm + float(dk @ Hi @ dk)) + np.log(w[k]))
        out.append((_lse(terms) if terms else -np.inf) - np.log(W.sum()))
        branches.append((near, far))
    return np.array(out), branches


def _fit(D, w, G, setting, cell, used=False, int_grid=False, raw=False):
    """raw: D and G are the CALLER'S float64 arrays and are handed over as they are (no defensive copy)."""
    from skmatter.neighbors import SparseKDE

    kw = dict(setting)
    if cell is not None:
        kw["metric_params"] = {"cell_length": np.array(cell, float)}
    m = SparseKDE(D if raw else np.array(D, float), None if w is None else np.array(w, float), **kw)
    if used:  # a USED estimator: fitted on another grid of the same size and queried before the fit that is judged
        Go = np.array(G, float)[::-1] * 1.0 + 0.0123  # another grid of the same size (slightly displaced, other order)
        # the displaced grid is subject to the same rule as the judged one: with fpoints, a grid one of whose Voronoi
        # cells holds all but at most one descriptor is not fitted (the tuning loop cannot reach its target)
        wv = np.full(len(D), 1.0 / len(D)) if w is None else np.asarray(w, float) / np.sum(w)
        lab_o = _sq(D, Go, cell).argmin(axis=1)
        Wo = np.array([wv[lab_o == j].sum() for j in range(len(Go))])
        if "fpoints" in setting and Wo.max() + 1.0 / len(D) >= 1.0 - 1e-9:
            Go = None
        try:
            if Go is None:
                raise ValueError("first fit skipped")
            m.fit(Go)
            m.score_samples(Go + 0.05)
        except Exception:
            pass
    rec = []
    orig = getattr(m, "_bandwidth_estimation_from_localization", None)
    if callable(orig):
        def wrapped(X, wlocal, flocal, idx):
            rec.append((int(idx), np.array(wlocal, float, copy=True)))
            return orig(X, wlocal, flocal, idx)
        try:
            m._bandwidth_estimation_from_localization = wrapped
        except Exception:
            rec = None
    else:
        rec = None
    try:
        m.fit(G if raw else (np.array(G, float) if not int_grid else np.array(G, float).astype(np.int64)))
    except Exception as e:
        e._verif_rec = rec
        raise
    return m, rec


def _reaches(wl):
    """The property's proviso: the localisation reaches at least one other grid point, i.e. at
    least two grid points carry a non-negligible share (>= 1e-3) of the local weight."""
    wl = np.asarray(wl, float)
    tot = wl.sum()
    if not np.isfinite(tot) or tot <= 1e-300 or wl.size < 2:
        return False
    share = np.sort(wl / tot)[::-1]
    return bool(share[1] >= 1e-3)


def _queries(D, G, cell):
    Da, Ga = np.asarray(D, float), np.asarray(G, float)
    d = Da.shape[1]
    v = np.array([0.137, -0.083, 0.061][:d])
    qs = [Ga[0] + v, Da[len(Da) // 2] + 0.5 * v, Ga[-1] - 2 * v, Da.mean(axis=0) + v]
    # queries sharing single coordinates with descriptors (but equal to none of them)
    for (i, j) in ((0, len(Da) - 1), (1, len(Da) // 2)):
        q = Da[i].copy()
        q[-1] = Da[j][-1]
        if not (np.abs(Da - q).max(axis=1) < 1e-12).any():
            qs.append(q)
    # a query very close to (but not equal to) a descriptor
    qs.append(Da[min(2, len(Da) - 1)] + 2.0 ** -12 * np.array([1.0, -1.0, 1.0, -1.0][:d]))
    span = (Da.max(axis=0) - Da.min(axis=0)).max() + 1.0
    if cell is None:
        qs += [Da.mean(axis=0) + 6 * span * np.ones(d), Ga[0] - 15 * span * np.eye(d)[0]]
    else:
        qs += [Ga[0] + 0.49 * np.asarray(cell, float), Da[0] + 0.31 * np.asarray(cell, float)]
    return np.array(qs)


def check(case):
    import warnings

    warnings.simplefilter("ignore")
    r = R()
    if "big_seed" in case:
        return _check_big(r, case)
    D = np.array(case["D"], float)
    G = np.array(case["G"], float)
    n, dim = D.shape
    cell = case["cell"]
    w = np.ones(n) / n if case["w"] is None else np.array(case["w"], float) / np.sum(case["w"])
    dist = _sq(D, G, cell)
    srt = np.sort(dist, axis=1)
    if len(G) > 1 and (srt[:, 1] - srt[:, 0] <= 1e-9 * max(1.0, srt.max())).any():
        return r.skip("a descriptor is equidistant from two grid points")
    gd = _sq(G, G, cell)
    np.fill_diagonal(gd, np.inf)
    if gd.min() <= 1e-12:
        return r.skip("two grid points coincide")
    labels = dist.argmin(axis=1)
    Wj = np.array([w[labels == j].sum() for j in range(len(G))])
    if "fpoints" in case["setting"] and Wj.max() + 1.0 / n >= 1.0 - 1e-9:
        # one cell holds all but at most one descriptor: the fraction-of-points localisation target
        # (cell weight + 1/n) is not below the total weight and the tuning loop cannot reach it
        return r.skip("degenerate grid: one Voronoi cell holds (almost) all descriptors")
    r.states = 0
    r.transitions = 0

    def fit(Dx, wx, Gx):
        r.transitions += 1
        return _fit(Dx, wx, Gx, case["setting"], cell, used=bool(case.get("used")), int_grid=bool(case.get("int_grid")))

    # a second LIVE estimator (the same problem translated by a constant), fitted BEFORE the judged one and scored
    # after the judged fit: two estimators must not share anything
    sib = None
    if (n + len(G)) % 3 != 1:
        try:
            sib, _ = _fit(D + 0.5, case["w"], G + 0.5, case["setting"], cell)
            r.transitions += 1
        except Exception:
            sib = None
    try:
        m, rec = fit(D, case["w"], G)
    except Exception as e:
        import traceback

        tb = traceback.extract_tb(e.__traceback__)
        last = getattr(e, "_verif_rec", None)
        if last:
            idx, wl = last[-1]
            if not _reaches(wl):
                return r.skip("localisation reaches no other grid point (outside the property's proviso; fit failed)")
        return r.fail("fit-crash:%s@%s" % (type(e).__name__, tb[-1].name if tb else "?"), "%r (setting %s, cell %s, %d grid points)" % (e, case["setting"], cell, len(G)))
    r.states += 1
    # ---- assignment and grid weights (private attributes: optional observation points)
    lab_impl = getattr(m, "_sample_labels_", None)
    if lab_impl is not None:
        if [int(x) for x in lab_impl] != labels.tolist():
            return r.fail("assignment-not-nearest-grid-point", "implementation %s, arg-min %s" % ([int(x) for x in lab_impl], labels.tolist()))
    else:
        DEGRADED.add("_sample_labels_ not available: assignment judged only through the mixture formula")
    W = np.array([w[labels == j].sum() for j in range(len(G))])
    gw = getattr(m, "_sample_weights", None)
    if gw is not None:
        gw = np.asarray(gw, float)
        if gw.shape != W.shape or np.abs(gw - W).max() > 1e-12 or abs(gw.sum() - 1.0) > 1e-9:
            return r.fail("grid-weights-not-sums-of-assigned-descriptor-weights", "implementation %s, sums %s" % (gw.tolist(), W.tolist()))
    # ---- bandwidths
    H = getattr(m, "bandwidth_", None)
    if H is None or np.asarray(H).shape != (len(G), dim, dim):
        return r.fail("bandwidth-shape", "%s" % (None if H is None else np.asarray(H).shape,))
    H = np.asarray(H, float)
    reach = {}
    if rec:
        for idx, wl in rec:
            reach[idx] = _reaches(wl)
    else:
        DEGRADED.add("localisation weights not observable: bandwidth clause judged for grids with >= 3 points only")
    all_pd = True
    for j in range(len(G)):
        proviso = reach.get(j, len(G) >= 3) if rec is not None else len(G) >= 3
        ok = bool(np.all(np.isfinite(H[j])) and np.abs(H[j] - H[j].T).max() <= 1e-10 * max(1.0, np.abs(H[j]).max()))
        if ok:
            ev = np.linalg.eigvalsh((H[j] + H[j].T) / 2)
            ok = ev.min() > 1e-14 * max(ev.max(), 1e-300) and ev.min() > 0
        if not ok:
            all_pd = False
            if proviso:
                return r.fail(
                    "bandwidth-not-finite-symmetric-positive-definite",
                    "grid point %d: %s (setting %s, cell %s, cloud %s)" % (j, np.round(H[j], 8).tolist(), case["setting"], cell, case["label"]),
                )
            r.count("bandwidth_outside_proviso")
    if not all_pd:
        r.outcome = ["degenerate-bandwidth"]
        return r
    # ---- the documented mixture
    Q = _queries(D, G, cell)
    if (len(G) + n) % 2:
        # order of public calls: drawing samples first must not change what is scored afterwards
        try:
            m.sample(3, random_state=0)
            m.sample(2, random_state=1)
        except Exception as e:
            return r.fail("sample-crash:%s" % type(e).__name__, repr(e))
        gw2 = getattr(m, "_sample_weights", None)
        if gw is not None and gw2 is not None and np.abs(np.asarray(gw2, float) - W).max() > 1e-12:
            return r.fail("sample-changes-the-grid-weights", "%s" % np.asarray(gw2).tolist())
    if sib is not None:
        try:
            sib.score_samples(Q + 0.5)
        except Exception:
            pass
    try:
        got = np.asarray(m.score_samples(Q.copy()), float)
        tot = float(m.score(Q.copy()))
    except Exception as e:
        return r.fail("score-crash:%s" % type(e).__name__, repr(e))
    want, branches = _mixture(Q, D, w, G, H, labels, cell)
    fin = np.isfinite(want)
    if got.shape != want.shape or not np.array_equal(np.isfinite(got), fin) or (fin.any() and np.abs(got[fin] - want[fin]).max() > 1e-8 * max(1.0, np.abs(want[fin]).max())):
        return r.fail("score_samples-differs-from-documented-mixture", "implementation %s, mixture %s (branches near/far %s)" % (np.round(got, 8).tolist(), np.round(want, 8).tolist(), branches))
    if fin.all() and abs(tot - want.sum()) > 1e-8 * max(1.0, abs(want.sum())):
        return r.fail("score-not-sum-of-score_samples", "%.10g vs %.10g" % (tot, want.sum()))
    near_any = any(b[0] > 0 for b in branches)
    far_any = any(b[1] > 0 for b in branches)
    r.nontrivial = (near_any and far_any) or (len(G) >= 3 and len({round(float(x), 9) for x in W}) >= 2)

    # ---- invariances (where the fit is a continuous function of the input: the branch "fpoints <= grid weight"
    # is decided by rounding when a grid weight equals fpoints, e.g. 4 of 5 equal descriptors and fpoints=0.8)
    if "fpoints" in case["setting"] and (np.abs(W - case["setting"]["fpoints"]) <= 1e-9).any():
        r.count("invariances_unjudgeable_grid_weight_equals_fpoints")
        r.outcome = [np.round(got[fin], 6).tolist()]
        return r

    # conditioning of the local covariances: cov /= 1 - sum(share^2) amplifies rounding by kappa
    if rec:
        kappa = 0.0
        for _, wl in rec:
            tot = float(np.sum(wl))
            if tot > 0:
                kappa = max(kappa, 1.0 / max(1.0 - float(np.sum((wl / tot) ** 2)), 1e-300))
        if kappa > 1e6:
            r.count("invariances_unjudgeable_local_covariance_ill_conditioned")
            r.outcome = [np.round(got[fin], 6).tolist()]
            return r
    # queries exactly half a cell away from a descriptor / grid point along an axis: either image is correct,
    # and with a non-diagonal bandwidth the two images have different Mahalanobis distances (a tie)
    tie_q = np.zeros(len(Q), bool)
    if cell is not None:
        cc = np.asarray(cell, float)
        for P_ in (D, G):
            fr = np.abs(np.mod((P_[None, :, :] - Q[:, None, :]) / cc, 1.0) - 0.5)
            tie_q |= (fr < 1e-9).any(axis=(1, 2))
        if tie_q.any():
            r.count("queries_at_half_cell_not_compared", int(tie_q.sum()))

    def compare(tag, D2, w2, G2, Q2, kind, tol=1e-6, elementwise=False):
        try:
            m2, _ = fit(D2, w2, G2)
            g2 = np.asarray(m2.score_samples(np.array(Q2, float)), float)
        except Exception as e:
            r.fail("transformed-fit-crash:%s" % type(e).__name__, "%s: %r" % (tag, e))
            return False
        r.states += 1
        f2 = np.isfinite(g2) & fin & ~tie_q
        if not np.array_equal(np.isfinite(g2)[~tie_q], fin[~tie_q]) or (f2.any() and (np.abs(g2[f2] - got[f2]) > tol * (np.maximum(1.0, np.abs(got[f2])) if elementwise else max(1.0, np.abs(got[f2]).max()))).any()):
            r.fail(kind, "%s: %s vs %s" % (tag, np.round(g2, 7).tolist(), np.round(got, 7).tolist()))
            return False
        return True

    wlist = case["w"]
    if cell is None:
        t = np.array([1.75, -2.5, 0.625][:dim]) if not case.get("int_grid") else np.array([2.0, -3.0, 1.0][:dim])
        if not compare("translation", D + t, wlist, G + t, Q + t, "not-translation-invariant"):
            return r
        if not case.get("int_grid"):
            # the caller REUSES its own arrays: fit, translate descriptors and grid IN PLACE (same array objects),
            # fit a new estimator on them. What is scored must be what a fit on fresh copies gives.
            Da_s, Ga_s = np.array(D, float), np.array(G, float)
            try:
                r.transitions += 2
                m1, _ = _fit(Da_s, wlist, Ga_s, case["setting"], cell, raw=True)
                g1 = np.asarray(m1.score_samples(Q.copy()), float)
                Da_s += t
                Ga_s += t
                m2, _ = _fit(Da_s, wlist, Ga_s, case["setting"], cell, raw=True)
                g2 = np.asarray(m2.score_samples(Q + t), float)
            except Exception as e:
                return r.fail("refit-on-reused-arrays-crash:%s" % type(e).__name__, repr(e))
            r.states += 2
            for tag_, g_ in (("fit on the caller's arrays", g1), ("refit after the caller translated its arrays in place", g2)):
                f2 = np.isfinite(g_) & fin
                if not np.array_equal(np.isfinite(g_), fin) or (f2.any() and np.abs(g_[f2] - got[f2]).max() > 1e-6 * max(1.0, np.abs(got[f2]).max())):
                    return r.fail("depends-on-reused-caller-arrays", "%s: %s vs %s" % (tag_, np.round(g_, 7).tolist(), np.round(got, 7).tolist()))
        if case["label"].startswith("tight") and not case.get("int_grid") and "fpoints" in case["setting"]:
            # narrow kernels, FAR translation (exact: 2^10 on a 2^-20 lattice). Everything the estimator computes is a
            # function of coordinate differences, which are unchanged bit for bit; a formula that works with the
            # coordinates themselves loses ~ eps * |t|^2 / h^2 ~ 1e-16 * 1e6 * 1e4. Measured on the unchanged library:
            # every element agrees to < 1e-11 (relative, element-wise) with the fpoints localisation; the fspread
            # localisation is not judged here because its Gaussian weights go through sklearn's expanded Euclidean
            # form, whose own rounding (eps * |t|^2 / sigma^2) already reaches 1e-5 at this distance
            tf = 1024.0 * np.array([1.0, -1.0, 1.0][:dim])
            r.count("far_translations_judged")
            if not compare("translation by 2^10", D + tf, wlist, G + tf, Q + tf, "not-translation-invariant", tol=1e-10, elementwise=True):
                return r
    for pi, perm in enumerate([list(range(n))[::-1], [(i * 5 + 2) % n for i in range(n)] if np.gcd(5, n) == 1 else list(range(1, n)) + [0]]):
        w2 = None if wlist is None else [wlist[p] for p in perm]
        if not compare("descriptor permutation %d" % pi, D[perm], w2, G, Q, "depends-on-descriptor-order"):
            return r
    gperm = list(range(len(G)))[::-1]
    if not compare("grid permutation", D, wlist, G[gperm], Q, "depends-on-grid-order"):
        return r
    if cell is not None:
        c = np.asarray(cell, float)
        for ax in range(dim):
            for s in (1, -1):
                sh = np.zeros(dim)
                sh[ax] = s * c[ax]
                if not compare("queries shifted by %+d cell on axis %d" % (s, ax), D, wlist, G, Q + sh, "depends-on-periodic-image-of-query"):
                    return r
                D2 = D.copy()
                D2[n // 3] += sh
                if not compare("descriptor %d shifted by %+d cell on axis %d" % (n // 3, s, ax), D2, wlist, G, Q, "depends-on-periodic-image-of-descriptor"):
                    return r
                if case.get("int_grid"):
                    continue  # an integer-typed grid point cannot be moved by a non-integer cell length
                G2 = G.copy()
                G2[-1] += sh
                two_pi = abs(c[ax] / (2 * np.pi) - round(c[ax] / (2 * np.pi))) < 1e-12
                kind = "depends-on-periodic-image-of-grid-point" if two_pi else "D14-periodic-covariance-not-image-invariant"
                if not compare("grid point %d shifted by %+d cell on axis %d (cell %s)" % (len(G) - 1, s, ax, np.round(c, 6).tolist()), D, wlist, G2, Q, kind):
                    return r
    r.outcome = [np.round(got[fin], 6).tolist()]
    return r


def _check_big(r, case):
    """Large weighted cloud: assignment, grid weights and the mixture at a few queries."""
    D, wraw, G = _big_cloud(case["big_seed"])
    w = wraw / wraw.sum()
    labels = _sq(D, G, None).argmin(axis=1)
    W = np.array([w[labels == j].sum() for j in range(len(G))])
    try:
        m, _ = _fit(D, wraw, G, case["setting"], None)
    except Exception as e:
        return r.fail("fit-crash:%s" % type(e).__name__, repr(e))
    r.states = 1
    r.transitions = 1
    lab = getattr(m, "_sample_labels_", None)
    if lab is not None and [int(x) for x in lab] != labels.tolist():
        return r.fail("assignment-not-nearest-grid-point", "large cloud")
    gw = getattr(m, "_sample_weights", None)
    if gw is not None and (np.abs(np.asarray(gw, float) - W).max() > 1e-10 or abs(float(np.sum(gw)) - 1) > 1e-9):
        return r.fail("grid-weights-not-sums-of-assigned-descriptor-weights", "large cloud: %s vs %s" % (np.asarray(gw).tolist(), W.tolist()))
    H = np.asarray(m.bandwidth_, float)
    Q = np.array([[0.3, 0.2], [2.5, 2.4], [9.0, 9.0]])
    got = np.asarray(m.score_samples(Q.copy()), float)
    want, _ = _mixture(Q, D, w, G, H, labels, None)
    if np.abs(got - want).max() > 1e-8 * max(1.0, np.abs(want).max()):
        return r.fail("score_samples-differs-from-documented-mixture", "large cloud: %s vs %s" % (got.tolist(), want.tolist()))
    r.nontrivial = True
    r.outcome = ["big5000", np.round(got, 6).tolist()]
    return r
