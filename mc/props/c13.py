"""C13 — reconstruction measures vanish on contained information, isometry invariant.

E1 over (X, Y from generic data with 12..20 samples and widths (wider, equal, narrower)) x
complete finite families of maps: linear maps A = ALL full-rank integer 2x2 / 2x3 / 3x2 matrices
over {-1,0,1,2} and a strided slice of the 4x2 / 5x2 / 5x3 ones; source / target rotations = ALL of the hyperoctahedral groups B_2, B_3 (and a
slice of B_4, B_5) plus a Givens menu; scalings {1/2, 3}; shifts; index choices {default,
explicit disjoint, explicit overlapping, train = test}; n_local_points = every value 2..n_train;
estimators {default, Ridge2FoldCV with one fixed alpha, sklearn Ridge}. Oracle: GRE(X, XA) ~ 0,
GRD(X, XQ) ~ 0, pointwise >= 0, global = RMS of pointwise, invariance of GRE / GRD / LRE under
source rotation / reflection, uniform rescaling and shift of either space and target rotation
(rotation-invariant model selection), defined for every width relation, training-set GRE <= 1,
LRE with all training points and an order-independent estimator == pointwise GRE."""

import itertools

import numpy as np

from .. import fam
from ..core import R

ID = "C13"
DESIGN_REF = "DESIGN.md §4 C13"
EXPLORER = "E1 product-space over complete finite families of maps (metamorphic + closed-form oracles)"
RULE = (
    "cases: contained (X, A) for every full-rank integer map A; isometry (X, Q) for every Q of B_d + Givens; invariance (X, Y, "
    "widths, transformation, measure, index choice, estimator); bound (training-set GRE); local (every n_local_points; LRE == GRE "
    "with all neighbours); non-trivial = the baseline measure is > 1e-3 (invariance cases) or the map is not a signed "
    "permutation / identity (contained, isometry cases); states = measure evaluations compared"
)
ASSUMPTIONS = [
    "X has full column rank and condition number <= 1e3 (generic family), so 'contained' means an exact linear image",
    "vanishing GRE / GRD with the DEFAULT (cross-validated cutoff) estimator is demanded only when each of its two folds has at least as many rows as the source has columns; with smaller folds the identity is demanded of a one-candidate cutoff estimator (plain least squares) instead",
    "closeness 1e-9 for invariances, 1e-10 for LRE == GRE, 1e-6 for vanishing measures (measures are O(1) after standardisation; the library computes in double precision)",
    "target-space rotation only with rotation-invariant model selection (one fixed alpha, or sklearn Ridge), as the property states",
    "LRE == GRE only with an order-independent estimator (one fixed alpha / sklearn Ridge without intercept)",
]
DEGRADED = set()
WIDTHS = [(4, 3), (3, 3), (2, 4), (5, 2)]


def _X(n, m, seed, j):
    X = fam.generic(n, m, seed, j)
    k = 0
    while X is None:
        k += 1
        X = fam.generic(n, m, seed, j + 100 * k)
    return np.array(X, float) + np.arange(m) * 0.5


def _Y(n, p, seed, j):
    return np.array(fam.generic_vec(n, seed, j + 7, p), float) * 2.0 - 1.0


def _int_maps(r, c):
    out = []
    for flat in itertools.product([-1, 0, 1, 2], repeat=r * c):
        A = np.array(flat, float).reshape(r, c)
        if np.linalg.matrix_rank(A) == min(r, c):
            out.append(A.tolist())
    return out


def _rotations(d, tier):
    qs = list(fam.signed_permutations(d)) if d <= 3 else [q for i, q in enumerate(fam.signed_permutations(d)) if i % (48 if tier == "quick" else 8) == 1]
    qs += list(fam.givens_menu(d, angles=(0.3, 2.5)))
    return qs


def _transformations(px, py, tier):
    trs = [("srcrot", Q) for Q in _rotations(px, tier)]
    trs += [("tgtrot", Q) for Q in _rotations(py, tier)]
    trs += [("scaleX", 0.5), ("scaleX", 3.0), ("scaleY", 0.5), ("scaleY", 3.0), ("shiftX", 2.5), ("shiftY", -4.0), ("shiftX", 1e7), ("shiftY", -1e7)]
    return trs


def bounds(tier, seed):
    return dict(
        widths=WIDTHS,
        samples=[12, 16, 20],
        linear_maps=dict(m2x2=len(_int_maps(2, 2)), m2x3=len(_int_maps(2, 3)), m3x2=len(_int_maps(3, 2))),
        rotations={d: len(_rotations(d, tier)) for d in (2, 3, 4, 5)},
        scalings=[0.5, 3.0],
        index_choices=["default", "disjoint", "overlapping", "train=test"],
        estimators=["default", "fixed-alpha Ridge2FoldCV", "sklearn Ridge"],
        scalers=["default (whole matrix)", "user-supplied column-wise StandardFlexibleScaler (shift / rescaling / local cases)"],
        n_local_points="2..n_train",
        seed=seed,
    )


def groups(tier, seed):
    out = []
    step = 1 if tier == "thorough" else 6
    for (r, c) in ((2, 2), (2, 3), (3, 2)):
        maps = _int_maps(r, c)
        for i in range(0, len(maps), 16):
            out.append(dict(kind="contained", maps=[m for k, m in enumerate(maps[i:i + 16]) if (i + k) % step == 0 or (r, c) == (2, 2)], r=r, seed=seed))
    # wider sources (4 or 5 columns with 12 / 16 samples: more columns than one cross-validation fold of the
    # training half has rows): a strided slice of the same complete family of integer maps
    for (r, c) in ((4, 2), (5, 2), (5, 3)):
        total = 4 ** (r * c)
        want = 48 if tier == "quick" else 480
        maps = []
        for i in range(want):
            flat = np.base_repr((i * (total // want) + 7 * i + 1) % total, 4).zfill(r * c)
            A = (np.array([int(ch) for ch in flat], float) - 1.0).reshape(r, c)
            if np.linalg.matrix_rank(A) == min(r, c):
                maps.append(A.tolist())
        for i in range(0, len(maps), 16):
            out.append(dict(kind="contained", maps=maps[i:i + 16], r=r, seed=seed))
    for d in (2, 3, 4, 5):
        out.append(dict(kind="isometry", d=d, seed=seed, tier=tier))
    for (px, py) in WIDTHS:
        for n in ((12,) if tier == "quick" else (12, 16, 20)):
            for ti in range(len(_transformations(px, py, tier))):
                out.append(dict(kind="invariance", px=px, py=py, n=n, seed=seed, tier=tier, ti=ti))
            for est in ("fixed", "ridge"):
                out.append(dict(kind="local", px=px, py=py, n=n, seed=seed, tier=tier, est=est))
    return out


def cases(group):
    k = group["kind"]
    if k == "contained":
        for A in group["maps"]:
            for n in (12, 16):
                yield dict(kind=k, A=A, n=n, seed=group["seed"])
    elif k == "isometry":
        for Q in _rotations(group["d"], group["tier"]):
            for n in (12, 16):
                yield dict(kind=k, Q=Q, n=n, seed=group["seed"])
    elif k == "invariance":
        px, py = group["px"], group["py"]
        for tr in [_transformations(px, py, group["tier"])[group["ti"]]]:
            for measure in ("GRE", "GRD", "LRE"):
                for idx in ("default", "disjoint", "overlapping", "train=test"):
                    ests = ["fixed", "ridge", "msecv"] if tr[0] == "tgtrot" else ["default", "fixed", "ridge"]
                    if tr[0] in ("scaleX", "scaleY", "shiftX", "shiftY"):
                        ests = ests + ["fixed+cw"]  # column-wise user scaler: shift / rescaling invariance still holds
                    if group["tier"] == "quick" and tr[0] in ("srcrot", "tgtrot") and idx in ("overlapping",) and measure != "GRE":
                        continue
                    for est in ests:
                        if group["tier"] == "quick" and est == "ridge" and idx != "default":
                            continue
                        yield dict(kind=k, px=px, py=py, n=group["n"], tr=[tr[0], tr[1]], measure=measure, idx=idx, est=est, seed=group["seed"])
    else:
        for est in (group["est"], group["est"] + "+cw"):
            for idx in ("default", "disjoint", "train=test"):
                yield dict(kind=k, px=group["px"], py=group["py"], n=group["n"], est=est, idx=idx, seed=group["seed"])


def _estimator(spec):
    from sklearn.linear_model import Ridge

    from skmatter.linear_model import Ridge2FoldCV

    if spec == "default":
        return None
    if spec == "cutoff1":  # one tiny relative cutoff: plain least squares on the training set, nothing to select
        return Ridge2FoldCV(alphas=[1e-9], alpha_type="relative", regularization_method="cutoff")
    # the user's estimator object has a HISTORY: it was configured differently and fitted on other data before, then
    # re-configured through set_params - it must behave like a freshly constructed one with the final parameters
    Xp = np.cos(np.arange(24, dtype=float).reshape(8, 3) * 0.7) * 2.0
    Yp = np.sin(np.arange(16, dtype=float).reshape(8, 2) * 1.3) + 0.5 * Xp[:, :2]
    if spec == "fixed":
        e = Ridge2FoldCV(alphas=[0.5, 0.01], alpha_type="relative", regularization_method="cutoff", scoring="neg_mean_absolute_error", shuffle=True, random_state=3)
        e.fit(Xp, Yp)
        e.set_params(alphas=[1e-3], alpha_type="absolute", regularization_method="tikhonov", scoring=None, shuffle=False, random_state=None)
        return e
    if spec == "msecv":  # model selection by (rotation-invariant) mean squared error over a grid
        e = Ridge2FoldCV(alphas=np.geomspace(1e-4, 1e2, 9), alpha_type="absolute", regularization_method="tikhonov", scoring="neg_mean_absolute_error", shuffle=False)
        e.fit(Xp, Yp)
        e.set_params(scoring=None)
        return e
    return Ridge(alpha=1e-2, fit_intercept=False)


def _indices(idx, n):
    if idx == "default":
        return None, None
    if idx == "disjoint":
        return np.arange(0, n, 2), np.arange(1, n, 2)
    if idx == "overlapping":
        return np.arange(0, (2 * n) // 3), np.arange(n // 3, n)
    return np.arange(n), np.arange(n)


def _folds_determine(n, idx, width):
    """The default estimator SELECTS its cutoff by 2-fold cross-validation on the training rows: 'zero on contained
    information' is demanded of it only when each fold alone determines the linear map (rows >= source columns);
    with smaller folds the selected cutoff is a statistical outcome, not an identity."""
    n_train = n if idx == "train=test" else n // 2
    return n_train // 2 >= width


def _measure(name, X, Y, idx, est, pointwise=False, n_local=None):
    import skmatter.metrics as M

    tr, te = _indices(idx, len(X))
    user_scaler = est.endswith("+cw")
    est = est.replace("+cw", "")
    kw = dict(train_idx=tr, test_idx=te, estimator=_estimator(est))
    if user_scaler:  # a user-supplied (column-wise) scaler object
        from skmatter.preprocessing import StandardFlexibleScaler

        kw["scaler"] = StandardFlexibleScaler(column_wise=True)
    fn = {
        ("GRE", False): M.global_reconstruction_error,
        ("GRE", True): M.pointwise_global_reconstruction_error,
        ("GRD", False): M.global_reconstruction_distortion,
        ("GRD", True): M.pointwise_global_reconstruction_distortion,
        ("LRE", False): M.local_reconstruction_error,
        ("LRE", True): M.pointwise_local_reconstruction_error,
    }[(name, pointwise)]
    if name == "LRE":
        ntr = len(X) // 2 if tr is None else len(tr)
        kw["n_local_points"] = n_local if n_local is not None else max(2, min(ntr, 6))
    return fn(X.copy(), Y.copy(), **kw)


def check(case):
    import warnings

    r = R()
    warnings.simplefilter("ignore")
    k = case["kind"]
    seed = case["seed"]
    r.states = 0
    r.transitions = 0

    def ev(*a, **kw):
        r.transitions += 1
        r.states += 1
        return _measure(*a, **kw)

    try:
        if k == "contained":
            A = np.array(case["A"], float)
            X = _X(case["n"], A.shape[0], seed, 1)
            Y = X @ A
            for idx, est in itertools.product(("default", "disjoint", "train=test"), ("default", "cutoff1")):
                pw = np.asarray(ev("GRE", X, Y, idx, est, pointwise=True), float)
                g = float(ev("GRE", X, Y, idx, est))
                if pw.min() < 0 or not np.all(np.isfinite(pw)):
                    return r.fail("pointwise-negative-or-nonfinite", "%s" % pw.tolist())
                if abs(g - np.sqrt((pw ** 2).mean())) > 1e-9 * max(1.0, g):
                    return r.fail("global-not-rms-of-pointwise", "global %.10g, rms %.10g" % (g, np.sqrt((pw ** 2).mean())))
                if est == "default" and not _folds_determine(case["n"], idx, A.shape[0]):
                    r.count("default_estimator_with_underdetermined_folds_not_judged")
                    continue
                if g > 1e-6:
                    return r.fail("gre-not-zero-on-contained-information", "GRE(X, XA) = %.3g for A = %s (indices %s, estimator %s)" % (g, A.tolist(), idx, est))
            # integer-valued sources (counts) handed over with an integer dtype: same values, same measures
            Xi = np.round(X * 4.0)
            if np.linalg.matrix_rank(Xi[0::2]) == Xi.shape[1] and np.linalg.matrix_rank(Xi[1::2]) == Xi.shape[1]:
                Yi = Xi @ A
                for name in ("GRE", "LRE"):
                    vi = float(ev(name, Xi.astype(np.int64), Yi, "disjoint", "cutoff1"))
                    vf = float(ev(name, Xi, Yi, "disjoint", "cutoff1"))
                    if abs(vi - vf) > 1e-9 * max(1.0, vf) or vi > 1e-6:
                        return r.fail("integer-typed-source-changes-the-measure", "%s: integer dtype %.6g, float %.6g (contained information: both ~ 0)" % (name, vi, vf))
            r.nontrivial = bool(np.abs(A).sum() > min(A.shape))
            r.outcome = ["contained", A.tolist()]
            return r
        if k == "isometry":
            Q = np.array(case["Q"], float)
            X = _X(case["n"], Q.shape[0], seed, 2)
            Y = X @ Q
            for idx, est in itertools.product(("default", "train=test"), ("default", "cutoff1")):
                pw = np.asarray(ev("GRD", X, Y, idx, est, pointwise=True), float)
                g = float(ev("GRD", X, Y, idx, est))
                if pw.min() < 0:
                    return r.fail("pointwise-negative-or-nonfinite", "%s" % pw.tolist())
                if abs(g - np.sqrt((pw ** 2).mean())) > 1e-9 * max(1.0, g):
                    return r.fail("global-not-rms-of-pointwise", "GRD global %.10g, rms %.10g" % (g, np.sqrt((pw ** 2).mean())))
                if est == "default" and not _folds_determine(case["n"], idx, Q.shape[0]):
                    r.count("default_estimator_with_underdetermined_folds_not_judged")
                    continue
                if g > 1e-6:
                    return r.fail("grd-not-zero-on-orthogonal-image", "GRD(X, XQ) = %.3g (indices %s, estimator %s)" % (g, idx, est))
            r.nontrivial = not np.allclose(Q, np.eye(len(Q)))
            r.outcome = ["isometry", np.round(Q, 6).tolist()]
            return r
        px, py, n = case["px"], case["py"], case["n"]
        X = _X(n, px, seed, 3)
        Y = _Y(n, py, seed, 3) + 0.5 * (X @ np.ones((px, py)))
        if k == "invariance":
            name, idx, est = case["measure"], case["idx"], case["est"]
            kind, par = case["tr"]
            base = float(ev(name, X, Y, idx, est))
            if not np.isfinite(base) or base < 0:
                return r.fail("measure-negative-or-nonfinite", "%s = %r" % (name, base))
            pw = np.asarray(ev(name, X, Y, idx, est, pointwise=True), float)
            if pw.min() < 0 or abs(base - np.sqrt((pw ** 2).mean())) > 1e-9 * max(1.0, base):
                return r.fail("global-not-rms-of-pointwise", "%s: global %.10g, rms %.10g" % (name, base, np.sqrt((pw ** 2).mean())))
            if kind == "srcrot":
                X2, Y2 = X @ np.array(par, float), Y
            elif kind == "tgtrot":
                X2, Y2 = X, Y @ np.array(par, float)
            elif kind == "scaleX":
                X2, Y2 = X * par, Y
            elif kind == "scaleY":
                X2, Y2 = X, Y * par
            elif kind == "shiftX":
                X2, Y2 = X + par, Y
            else:
                X2, Y2 = X, Y + par
            got = float(ev(name, X2, Y2, idx, est))
            tol_inv = 1e-9 if not (kind.startswith("shift") and abs(par) > 1e3) else 1e-6  # a 1e7 offset costs 7 digits of the input
            if abs(got - base) > tol_inv * max(1.0, base):
                return r.fail(
                    "not-invariant-under-%s" % kind,
                    "%s(%dx%d -> %d, indices %s, estimator %s): %.10g vs %.10g" % (name, n, px, py, idx, est, got, base),
                )
            if name == "GRE" and idx == "train=test" and not est.endswith("+cw") and base > 1 + 1e-9:
                return r.fail("training-set-gre-exceeds-one", "%.10g" % base)
            r.nontrivial = base > 1e-3
            r.outcome = [name, idx, est, round(base, 8)]
            return r
        # ---- local: every n_local_points; all neighbours == pointwise GRE
        est, idx = case["est"], case["idx"]
        tr, _ = _indices(idx, n)
        ntr = n // 2 if tr is None else len(tr)
        gre = np.asarray(ev("GRE", X, Y, idx, est, pointwise=True), float)
        for nl in range(2, ntr + 1):
            pw = np.asarray(ev("LRE", X, Y, idx, est, pointwise=True, n_local=nl), float)
            g = float(ev("LRE", X, Y, idx, est, n_local=nl))
            if pw.shape != gre.shape or not np.all(np.isfinite(pw)) or pw.min() < 0:
                return r.fail("lre-undefined-or-negative", "n_local_points=%d: %s" % (nl, pw.tolist()))
            if abs(g - np.sqrt((pw ** 2).mean())) > 1e-9 * max(1.0, g):
                return r.fail("global-not-rms-of-pointwise", "LRE n_local_points=%d" % nl)
            if nl == ntr and np.abs(pw - gre).max() > 1e-10 * max(1.0, gre.max()):
                return r.fail("lre-with-all-neighbours-differs-from-gre", "max diff %.3g (estimator %s, indices %s)" % (np.abs(pw - gre).max(), est, idx))
        if idx == "train=test" and not est.endswith("+cw"):  # the bound 1 belongs to the default (whole-matrix) scaling
            g = float(ev("GRE", X, Y, idx, est))
            if g > 1 + 1e-9:
                return r.fail("training-set-gre-exceeds-one", "%.10g" % g)
        r.nontrivial = True
        r.outcome = ["local", est, idx, np.round(gre, 6).tolist()]
        return r
    except Exception as e:
        import traceback

        tb = traceback.extract_tb(e.__traceback__)
        where = tb[-1].name if tb else "?"
        return r.fail("crash:%s@%s" % (type(e).__name__, where), "%r (case kind %s %s)" % (e, k, {kk: vv for kk, vv in case.items() if kk in ("measure", "idx", "est", "px", "py", "tr")}))
