"""C15 — periodic and Mahalanobis distances obey the metric laws under minimum image.

E1 over a POINT LATTICE: every pair and every triple of points of {-2.5c, ..., 2.5c step c/4}^d
(d = 1: 21 points; d = 2: 81 points, all 531 441 triples, vectorised; d = 3..6 on coarser
lattices) x cells (unit, strongly anisotropic) x all integer image shifts in {-2..2}^d (d <= 2;
axis shifts for d >= 3) of either argument x squared in {F, T}. Half-cell differences are in
the lattice on purpose. Oracles: symmetry, non-negativity, zero to every periodic image, shift
invariance, <= free-space distance, <= half the cell diagonal, triangle inequality on ALL
triples, squared == distance^2, no cell == sklearn Euclidean; Mahalanobis with identity ==
periodic Euclidean, with L L^T == Euclidean of L-whitened points (free space) and == the
explicit quadratic form of the wrapped difference (periodic), every matrix of a stack handled
independently; wrong cell dimension raises ValueError."""

import itertools

import numpy as np

from ..core import R

ID = "C15"
DESIGN_REF = "DESIGN.md §4 C15"
EXPLORER = "E1 exhaustive enumeration of all pairs / triples of a bounded point lattice"
RULE = (
    "one case = (function, dimension, cell, squared); inside, ALL ordered pairs and ALL triples of the point lattice and all "
    "listed image shifts are judged (vectorised); states = pairs + triples judged, transitions = calls of the real function; "
    "non-trivial = the lattice contains points outside the cell and at exactly half a cell apart (always true by construction, measured)"
)
ASSUMPTIONS = [
    "coordinates are multiples of c/4 within +-2.5 cells (far outside the cell, but not astronomically far: rounding of huge coordinates is outside the bound)",
    "closeness 1e-9 * (cell diagonal); at exactly half a cell either image is accepted (only the distance is compared)",
    "rectangular cells only, as the functions document",
]
DEGRADED = set()

CELL_ANISO = [2.0, 0.5, 3.7, 1.25, 0.75, 3.0]


def _coords(d, tier):
    if d == 1:
        return [i / 4.0 for i in range(-10, 11)]
    if d == 2:
        if tier == "thorough":
            return [i / 4.0 for i in range(-10, 11)]
        return [i / 4.0 for i in (-10, -7, -4, -2, -1, 0, 1, 2, 5)]
    if d == 3:
        return [-1.25, 0.0, 0.5, 1.75]
    if d == 4:
        return [-1.5, 0.25, 1.0]
    return [-0.75, 1.75]


def _points(d, cell, tier, compact=False):
    pts = np.array(list(itertools.product(_coords(d, tier), repeat=d)), float)
    if compact:  # the whole set fits into a box much smaller than the longest cell side
        return pts * float(np.min(cell))
    return pts * np.asarray(cell, float)[None, :]


def _cell(d, which):
    if which == "slab":  # one short periodic direction, the others 20x longer
        return [2.0] + [40.0] * (d - 1)
    return [1.0] * d if which == "unit" else CELL_ANISO[:d]


def bounds(tier, seed):
    return dict(
        dimensions=[1, 2, 3, 4, 5, 6],
        lattice={d: len(_points(d, _cell(d, "unit"), tier)) for d in range(1, 7)},
        cells=["unit", CELL_ANISO, "slab [2, 40, ...] with a compact point set"],
        shifts="all of {-2..2}^d for d <= 2; axis shifts +-1, +-2 and the all-ones shift for d >= 3; applied to either argument",
        squared=[False, True],
        precisions="identity, 2 lower-triangular L L^T per dimension, and their stack",
        seed=seed,
    )


def groups(tier, seed):
    out = []
    for fn in ("euclid", "mahal"):
        for d in range(1, 7):
            for which in ("unit", "aniso", "none") + (("slab",) if d >= 2 else ()):
                for squared in (False, True):
                    out.append(dict(fn=fn, d=d, cell=which, squared=squared, tier=tier))
    out.append(dict(fn="dimcheck", d=2, cell="unit", squared=False, tier=tier))
    out.append(dict(fn="bigstack", d=3, cell="aniso", squared=True, tier=tier))
    return out


def count(group):
    """closed-form size of a group (independent of the generator): one vectorised case"""
    return 1

def cases(group):
    yield dict(group)


def _shifts(d):
    if d <= 2:
        return [np.array(s, float) for s in itertools.product(range(-2, 3), repeat=d)]
    out = []
    for a in range(d):
        for k in (-2, -1, 1, 2):
            s = np.zeros(d)
            s[a] = k
            out.append(s)
    out.append(np.ones(d))
    out.append(-2 * np.ones(d))
    return out


def _Ls(d):
    L1 = np.eye(d)
    for i in range(d):
        for j in range(i):
            L1[i, j] = 0.25 * ((i + 2 * j) % 3 - 1)
        L1[i, i] = 1.0 + 0.5 * (i % 2)
    L2 = np.eye(d) * 2.0
    for i in range(1, d):
        L2[i, i - 1] = -0.5
    return [L1, L2]


def _ref_wrap(diff, cell):
    """Reference minimum image: |component| folded into [0, cell/2] (exact fold, no round())."""
    a = np.abs(diff)
    a = np.mod(a, cell)
    return np.minimum(a, cell - a)


def check(case):
    from sklearn.metrics.pairwise import euclidean_distances

    from skmatter.metrics import pairwise_mahalanobis_distances, periodic_pairwise_euclidean_distances

    r = R()
    fn, d, which, squared, tier = case["fn"], case["d"], case["cell"], case["squared"], case["tier"]
    r.states = 0
    r.transitions = 0
    if fn == "dimcheck":
        X = np.zeros((3, 2))
        for f, args in ((periodic_pairwise_euclidean_distances, dict()), (pairwise_mahalanobis_distances, dict(cov_inv=np.eye(2)))):
            for bad in ([1.0], [1.0, 1.0, 1.0]):
                try:
                    if "cov_inv" in args:
                        f(X, X, args["cov_inv"], cell_length=bad)
                    else:
                        f(X, X, cell_length=bad)
                    r.fail("wrong-cell-dimension-accepted", "%s with cell %s" % (f.__name__, bad))
                except ValueError:
                    pass
                r.transitions += 1
                r.states += 1
        r.nontrivial = True
        return r

    if fn == "bigstack":
        # 300 x 300 points, 80 precisions (2.16e7 pair-matrix entries): every matrix of the stack on its own
        rng = np.random.default_rng(2024)
        Pb = np.round(rng.uniform(-3, 3, size=(300, d)) * 64) / 64
        cellb = np.array(_cell(d, "aniso"), float)
        Ls = [np.eye(d) + 0.1 * ((i % 7) - 3) * np.tril(np.ones((d, d)), -1) + 0.05 * (i % 5) * np.eye(d) for i in range(80)]
        stack = np.array([L @ L.T for L in Ls])
        S = np.asarray(pairwise_mahalanobis_distances(Pb, Pb, stack, cell_length=cellb, squared=True), float)
        r.transitions += 1
        if S.shape != (80, 300, 300):
            return r.fail("stack-shape", "%s" % (S.shape,))
        for t in (0, 1, 39, 61, 62, 63, 78, 79):
            single = np.asarray(pairwise_mahalanobis_distances(Pb, Pb, stack[t], cell_length=cellb, squared=True), float)[0]
            r.transitions += 1
            r.states += 300 * 300
            if np.abs(single - S[t]).max() > 1e-9 * max(1.0, np.abs(single).max()):
                return r.fail("stack-not-independent", "large stack, matrix %d: max diff %.3g" % (t, np.abs(single - S[t]).max()))
        r.nontrivial = True
        r.outcome = ["bigstack"]
        return r
    cell = None if which == "none" else np.array(_cell(d, which), float)
    cvec = np.ones(d) if cell is None else cell
    P = _points(d, cvec, tier, compact=(which == "slab"))
    n = len(P)
    diag = float(np.sqrt((cvec ** 2).sum()))
    tol = 1e-9 * max(diag, 1.0)
    half_pairs = 0

    def call(A, B):
        r.transitions += 1
        if fn == "euclid":
            return np.asarray(periodic_pairwise_euclidean_distances(A, B, cell_length=None if cell is None else cell.tolist(), squared=squared), float)
        return np.asarray(pairwise_mahalanobis_distances(A, B, np.eye(d), cell_length=None if cell is None else cell, squared=squared), float)[0]

    D = call(P, P)
    if D.shape != (n, n):
        return r.fail("shape", "%s" % (D.shape,))
    dist = np.sqrt(D) if squared else D
    diff = P[:, None, :] - P[None, :, :]
    if cell is None:
        refd = np.sqrt((diff ** 2).sum(axis=2))
        sk = euclidean_distances(P, P, squared=squared)
        if np.abs(D - sk).max() > 1e-7 * max(1.0, np.abs(sk).max()):
            r.fail("no-cell-differs-from-sklearn-euclidean", "max diff %.3g" % np.abs(D - sk).max())
    else:
        w = _ref_wrap(diff, cell[None, None, :])
        refd = np.sqrt((w ** 2).sum(axis=2))
        half_pairs = int((np.abs(w - cell[None, None, :] / 2) < 1e-12).any(axis=2).sum())
    r.states += n * n
    if not np.all(np.isfinite(D)) or D.min() < -tol:
        r.fail("negative-or-nonfinite", "min %.3g" % D.min())
    if np.abs(D - D.T).max() > tol:
        r.fail("not-symmetric", "max |D - D^T| = %.3g" % np.abs(D - D.T).max())
    if np.abs(dist - refd).max() > tol * 10:
        i, j = np.unravel_index(np.argmax(np.abs(dist - refd)), dist.shape)
        r.fail("differs-from-minimum-image-reference", "points %s %s: %.9g vs %.9g" % (P[i].tolist(), P[j].tolist(), dist[i, j], refd[i, j]))
    # squared == distance^2 (compare the two modes)
    if True:
        sq_saved = squared
        other = None
        try:
            if fn == "euclid":
                other = np.asarray(periodic_pairwise_euclidean_distances(P, P, cell_length=None if cell is None else cell.tolist(), squared=not squared), float)
            else:
                other = np.asarray(pairwise_mahalanobis_distances(P, P, np.eye(d), cell_length=None if cell is None else cell, squared=not squared), float)[0]
            r.transitions += 1
        except Exception as e:
            r.fail("crash:%s" % type(e).__name__, repr(e))
        if other is not None:
            a, b = (D, other ** 2) if sq_saved else (D ** 2, other)
            if np.abs(a - b).max() > 1e-9 * max(1.0, np.abs(a).max()):
                r.fail("squared-not-square-of-distance", "max diff %.3g" % np.abs(a - b).max())
    if cell is not None:
        free = np.sqrt((diff ** 2).sum(axis=2))
        if (dist > free + tol).any():
            r.fail("larger-than-free-space-distance", "")
        if dist.max() > diag / 2 + tol:
            r.fail("larger-than-half-cell-diagonal", "max %.9g, half diagonal %.9g" % (dist.max(), diag / 2))
        # zero to every periodic image, invariance under image shifts of either argument
        for s in _shifts(d):
            Ps = P + (s * cell)[None, :]
            Ds = call(Ps, P)
            Dt = call(P, Ps)
            r.states += 2 * n * n
            if np.abs(np.diag(Ds)).max() > tol:
                r.fail("nonzero-distance-to-periodic-image", "shift %s: max %.3g" % (s.tolist(), np.abs(np.diag(Ds)).max()))
                break
            if np.abs(Ds - D).max() > tol * (10 if not squared else 10 * diag) or np.abs(Dt - D).max() > tol * (10 if not squared else 10 * diag):
                r.fail("not-invariant-under-image-shift", "shift %s: max change %.3g" % (s.tolist(), max(np.abs(Ds - D).max(), np.abs(Dt - D).max())))
                break
    # triangle inequality on ALL triples: d(i,j) <= d(i,k) + d(k,j)
    for i0 in range(0, n, 64):
        blk = dist[i0:i0 + 64]
        lhs = blk[:, None, :]                    # (i, 1, j)
        rhs = blk[:, :, None] + dist[None, :, :]  # (i, k, 1) + (1, k, j)
        r.states += blk.shape[0] * n * n
        if (lhs > rhs + tol * 10).any():
            i, k, j = np.unravel_index(np.argmax(lhs - rhs), rhs.shape)
            i += i0
            r.fail("triangle-inequality", "d(%s,%s)=%.9g > d(.,%s)=%.9g + %.9g" % (P[i].tolist(), P[j].tolist(), dist[i, j], P[k].tolist(), dist[i, k], dist[k, j]))
            break

    if fn == "mahal":
        Ls = _Ls(d)
        stack = np.array([L @ L.T for L in Ls] + [np.eye(d)])
        try:
            S = np.asarray(pairwise_mahalanobis_distances(P, P, stack, cell_length=None if cell is None else cell, squared=squared), float)
            r.transitions += 1
        except Exception as e:
            return r.fail("crash:%s" % type(e).__name__, "stack: %r" % e)
        if S.shape != (3, n, n):
            return r.fail("stack-shape", "%s" % (S.shape,))
        for t, M in enumerate(stack):
            single = np.asarray(pairwise_mahalanobis_distances(P, P, M, cell_length=None if cell is None else cell, squared=squared), float)[0]
            r.transitions += 1
            if np.abs(single - S[t]).max() > 1e-9 * max(1.0, np.abs(single).max()):
                r.fail("stack-not-independent", "matrix %d: max diff %.3g" % (t, np.abs(single - S[t]).max()))
            # explicit quadratic form of the (wrapped) difference
            if cell is None:
                wd = diff
            else:
                wd = diff - np.round(diff / cell) * cell  # either image at exactly half a cell; judged below only off ties
            q = np.einsum("ijk,kl,ijl->ij", wd, M, wd)
            want = q if squared else np.sqrt(np.clip(q, 0, None))
            mask = np.ones_like(q, bool)
            if cell is not None:
                wfold = _ref_wrap(diff, cell[None, None, :])
                mask = ~(np.abs(wfold - cell[None, None, :] / 2) < 1e-9).any(axis=2)  # ties: image choice is open
            if mask.any() and np.abs((single - want)[mask]).max() > 1e-8 * max(1.0, np.abs(want).max()):
                r.fail("mahalanobis-differs-from-quadratic-form", "matrix %d: max diff %.3g" % (t, np.abs((single - want)[mask]).max()))
            if cell is None and t < len(Ls):
                Wp = P @ Ls[t]
                e = euclidean_distances(Wp, Wp, squared=squared)
                if np.abs(single - e).max() > 1e-7 * max(1.0, np.abs(e).max()):
                    r.fail("mahalanobis-differs-from-whitened-euclidean", "matrix %d: max diff %.3g" % (t, np.abs(single - e).max()))
            r.states += n * n
        # identity precision == periodic euclidean
        pe = np.asarray(periodic_pairwise_euclidean_distances(P, P, cell_length=None if cell is None else cell.tolist(), squared=squared), float)
        if np.abs(pe - S[2]).max() > 1e-9 * max(1.0, np.abs(pe).max()) + (1e-7 if cell is None else 0):
            r.fail("identity-precision-differs-from-periodic-euclidean", "max diff %.3g" % np.abs(pe - S[2]).max())
    # single-precision INPUT (float32 coordinates, one set far outside the cell): the same real numbers handed over as
    # float64 must give the same distances - the function works in double precision whatever the storage type
    if fn == "euclid" and cell is not None:
        A32 = (P + 20000.0 * np.sign(P + 1e-9)).astype(np.float32)
        B32 = P.astype(np.float32)
        try:
            d32 = call(A32, B32)
            d64 = call(A32.astype(np.float64), B32.astype(np.float64))
            r.states += 2 * n * n
            if d32.shape != d64.shape or np.abs(d32 - d64).max() > 1e-9 * max(1.0, diag):
                r.fail("float32-input-loses-precision", "float32 arguments vs the same values as float64: max diff %.3g" % np.abs(d32 - d64).max())
        except Exception as e:
            r.fail("crash:%s" % type(e).__name__, "float32 input: %r" % e)
    # nothing may be remembered by object identity: the same arrays updated in place == fresh arrays
    Pa, Pb = P.copy(), P[: max(2, n // 3)].copy()
    first = call(Pa, Pb)
    Pb *= 1.25
    Pb += 0.375 * cvec[None, :]
    again = call(Pa, Pb)
    fresh = call(Pa.copy(), Pb.copy())
    if np.abs(again - fresh).max() > 1e-12 * max(1.0, np.abs(fresh).max()):
        r.fail("result-depends-on-array-identity", "second call with the same (updated) array object differs from fresh arrays by %.3g" % np.abs(again - fresh).max())
    # two different point sets that are overlapping views of ONE array (consecutive frames of a trajectory)
    if n >= 4:
        A_, B_ = P[:-1], P[1:]
        ov = call(A_, B_)
        cp = call(A_.copy(), B_.copy())
        if ov.shape != cp.shape or np.abs(ov - cp).max() > 1e-12 * max(1.0, np.abs(cp).max()):
            r.fail("overlapping-views-treated-differently-from-copies", "max diff %.3g" % np.abs(ov - cp).max())
    outside = bool((np.abs(P) > cvec[None, :]).any()) if cell is not None else True
    r.nontrivial = outside and (cell is None or half_pairs > 0)
    r.count("half_cell_pairs", half_pairs)
    r.outcome = [fn, d, which, squared, round(float(dist.sum()), 6)]
    return r
