"""C04 — PCovR interpolates optimally and monotonically between PCA and regression.

E1 over (centred data, Y, k, regressor, space) with a COMPLETE inner walk over the mixing grid
{0, 1/8, ..., 1} and over a finite competitor catalogue. Oracle: (a) mixing=1 reproduces
sklearn PCA (T T^T and reconstruction); (b) mixing=0 with exact least squares and k >=
rank(Yhat) reproduces the regression's predictions; (c) for every mixing the value of the
mixed objective attained by the fitted subspace equals the closed-form optimum sum_{i>k}
lambda_i of an independently built K~ (Ky Fan's theorem decides "no other k-dimensional
subspace does better" for that input), and every competitor of the catalogue (all coordinate
k-subsets of sample space, PCA's subspace, the regression's, Givens tilts of the fitted
subspace) is evaluated and must not be smaller; (d) along the grid l_X is non-increasing and
l_Yhat non-decreasing."""

import itertools

import numpy as np

from .. import fam, pcov
from ..core import R

ID = "C04"
DESIGN_REF = "DESIGN.md §4 C04"
EXPLORER = "E1 product-space with complete inner walks over the mixing grid and the competitor catalogue"
RULE = (
    "cases = (centred X, Y) x k x regressor in {LinearRegression(no intercept), Ridge(1e-3), default Ridge(1e-6)} x space; "
    "each case walks mixing in {0,1/8,...,1} (9 fits) and, per mixing, the competitor catalogue; non-trivial = 0 < k < rank(X) "
    "and at least 10 competitors evaluated; states = (mixing) states judged, transitions = fits + competitor evaluations"
)
ASSUMPTIONS = [
    "optimality is decided by equality with the Ky Fan optimum of the independently built K~ (a theorem), the competitor catalogue is an additional finite cross-check",
    "closeness: 1e-6 * trace(K~) for objective values; the PCA / regression limits are compared under the gap rule",
    "regressors without intercept, as the property states; exact least squares for the mixing=0 limit",
]
DEGRADED = set()
GRID = [i / 8.0 for i in range(9)]
REGS = ["linreg", "ridge1e-3", "default", "linreg-fitted-elsewhere"]


def bounds(tier, seed):
    ds = _datas(tier, seed)
    return dict(
        data={l: sum(1 for a, _, _ in ds if a == l) for l in sorted({l for l, _, _ in ds})},
        mixing_grid=GRID,
        regressors=REGS,
        spaces=["feature", "sample"],
        competitors="all coordinate k-subsets (n choose k), PCA subspace, regression subspace (padded with PCA directions), Givens tilts of the fitted subspace in every (retained, discarded) plane by +-1e-3, +-1e-1",
        seed=seed,
    )


def _datas(tier, seed):
    steps = dict(L4x2=163, L3x3=331, L2x4=331) if tier == "quick" else dict(L4x2=13, L3x3=29, L2x4=29)
    return pcov.pcovr_datas(tier, seed, lattice_steps=steps, generic_per_shape=2 if tier == "quick" else 10)


def groups(tier, seed):
    return [dict(label=l, X=X, Ys=Ys) for l, X, Ys in _datas(tier, seed)]


def cases(group):
    X = group["X"]
    kmax = min(len(X), len(X[0]))
    for Y in group["Ys"]:
        for k in range(1, kmax + 1):
            for spec in REGS:
                for space in ("feature", "sample"):
                    yield dict(X=X, Y=Y, k=k, reg=spec, space=space)
                    if spec in ("default", "linreg") and group["label"][0] in "GI":
                        # integer-typed targets; and ONE estimator walking the mixing grid through set_params on the
                        # caller's (refilled) buffers
                        yield dict(X=X, Y=Y, k=k, reg=spec, space=space, y_int=True)
                        yield dict(X=X, Y=Y, k=k, reg=spec, space=space, walk=True)
                    if k < kmax and spec == "linreg":
                        yield dict(X=X, Y=Y, k=k, reg=spec, space=space, solver="arpack")


def _competitors(ref, k, T, n):
    """Finite catalogue of competitor projectors (sample space)."""
    out = []
    for sub in itertools.combinations(range(n), k):
        P = np.zeros((n, n))
        for i in sub:
            P[i, i] = 1.0
        out.append(("axes%s" % (sub,), P))
    Ux, sx, _ = np.linalg.svd(ref.X, full_matrices=False)
    out.append(("pca", Ux[:, :k] @ Ux[:, :k].T))
    B = pcov_basis(np.hstack([ref.Yhat, Ux]), k)
    out.append(("regression", B @ B.T))
    # Givens tilts of the fitted subspace
    Q, _ = np.linalg.qr(np.hstack([T, np.eye(n)]))
    Qk, Qr = Q[:, :k], Q[:, k:n]
    for i in range(Qk.shape[1]):
        for j in range(Qr.shape[1]):
            for th in (1e-3, -1e-3, 1e-1, -1e-1):
                B = Qk.copy()
                B[:, i] = np.cos(th) * Qk[:, i] + np.sin(th) * Qr[:, j]
                out.append(("tilt(%d,%d,%g)" % (i, j, th), B @ B.T))
    return out


def pcov_basis(A, k):
    """First k independent directions of the columns of A (Gram-Schmidt with pivot order)."""
    n = A.shape[0]
    B = np.zeros((n, 0))
    for j in range(A.shape[1]):
        v = A[:, j] - B @ (B.T @ A[:, j])
        nv = np.linalg.norm(v)
        if nv > 1e-9 * max(1.0, np.linalg.norm(A[:, j])):
            B = np.hstack([B, (v / nv)[:, None]])
        if B.shape[1] == k:
            break
    return B


def check(case):
    r = R()
    X = np.array(case["X"], float)
    Y = np.array(case["Y"], float)
    k, spec, space = case["k"], case["reg"], case["space"]
    n, m = X.shape
    if case.get("y_int"):
        Y = np.round(Y * 2.0)
    walker = None
    if case.get("walk"):
        from skmatter.decomposition import PCovR

        walker = PCovR(mixing=0.5, n_components=k, regressor=pcov.make_regressor(spec, X, Y), space=space, svd_solver=case.get("solver", "full"), random_state=0)
        bufX = np.ascontiguousarray(pcov.center(X[::-1, ::-1] * 0.6 + 0.25)).copy()
        bufY = np.ascontiguousarray(Y[::-1] * -0.7).copy()
        try:
            walker.fit(bufX, bufY)
        except Exception as e:
            return r.fail("crash:%s" % type(e).__name__, "first fit of the walking estimator: %r" % e)
        bufX[...] = X
        bufY[...] = Y
    r.states = 0
    r.transitions = 0
    lx_prev = ly_prev = None
    ncomp = 0
    rankX = None
    # ONE user-supplied regressor object is shared by the whole walk and was handed before to another
    # PCovR fitted on other data of the same shape (it must stay the caller's unfitted object)
    shared = pcov.make_regressor(spec, X, Y)
    if shared is not None and spec != "linreg-fitted-elsewhere":
        Xo = pcov.center(X[::-1, ::-1] * 0.75 + 0.5)
        _, exc0 = pcov.fit_pcovr(Xo, Y[::-1] * -0.5, 0.5, k, spec, space, case.get("solver", "full"), regressor_obj=shared)
        r.transitions += 1
        if exc0 is not None:
            return r.fail("crash:%s" % type(exc0).__name__, "fit with the shared regressor on other data: %r" % exc0)
    for mixing in GRID:
        ref = pcov.Ref(X, Y, mixing, spec)
        rankX = ref.rankX
        if ref.condX > 2e3:
            return r.skip("X ill conditioned on its non-zero spectrum")
        if walker is not None:
            est, exc = walker, None
            try:
                walker.set_params(mixing=mixing)
                walker.fit(bufX, bufY)
            except Exception as e:
                exc = e
        else:
            est, exc = pcov.fit_pcovr(X, Y, mixing, k, spec, space, case.get("solver", "full"), regressor_obj=shared, y_int=bool(case.get("y_int")))
        r.transitions += 1
        if exc is not None:
            r.fail("crash:%s" % type(exc).__name__, "mixing=%g: %r" % (mixing, exc))
            break
        T = np.asarray(est.transform(X), float)
        P = pcov.projector_of(T)
        trK = max(float(np.trace(ref.K)), 1e-300)
        tol = 1e-6 * trK + 1e-12
        val = ref.objective(P, mixing)
        opt = ref.optimum(k)
        r.states += 1
        # (c) optimality: attained value == Ky Fan optimum
        if val > opt + tol:
            r.fail("subspace-not-optimal", "mixing=%g: objective %.10g, optimum sum_{i>k} lambda_i = %.10g" % (mixing, val, opt))
            break
        if val < opt - tol:
            r.fail("oracle-inconsistent", "mixing=%g: objective %.10g below the Ky Fan bound %.10g" % (mixing, val, opt))
            break
        for name, Pc in _competitors(ref, k, T, n):
            vc = ref.objective(Pc, mixing)
            ncomp += 1
            if vc < val - tol:
                r.fail("competitor-beats-fitted-subspace", "mixing=%g: %s attains %.10g < %.10g" % (mixing, name, vc, val))
                break
        r.transitions += 1
        if r.violations:
            break
        # (d) monotone losses along the grid
        RX = X - P @ X
        RY = ref.Yhat - P @ ref.Yhat
        lx, ly = float((RX ** 2).sum()), float((RY ** 2).sum())
        tl = 1e-6 * max(float((X ** 2).sum()), float((ref.Yhat ** 2).sum()), 1e-300)
        # Yhat depends on mixing only through nothing: the regressor is the same for all mixings
        if lx_prev is not None:
            if lx > lx_prev + tl:
                r.fail("reconstruction-loss-increases-with-mixing", "mixing=%g: l_X %.10g > previous %.10g" % (mixing, lx, lx_prev))
                break
            if ly < ly_prev - tl:
                r.fail("regression-loss-decreases-with-mixing", "mixing=%g: l_Yhat %.10g < previous %.10g" % (mixing, ly, ly_prev))
                break
        lx_prev, ly_prev = lx, ly
        # (a) PCA limit
        if mixing == 1.0 and ref.judgeable(k):
            from sklearn.decomposition import PCA

            pca = PCA(n_components=k, svd_solver="full").fit(X)
            Tp = pca.transform(X)
            if np.abs(T @ T.T - Tp @ Tp.T).max() > 1e-6 * ref.lam1 + 1e-12:
                r.fail("mixing-1-differs-from-PCA", "max |T T^T - T_pca T_pca^T| = %.3g" % np.abs(T @ T.T - Tp @ Tp.T).max())
            rec = np.asarray(est.inverse_transform(T), float)
            recp = pca.inverse_transform(Tp)
            if np.abs(rec - recp).max() > 1e-6 * max(1.0, np.abs(X).max()) * max(1.0, ref.condX):
                r.fail("mixing-1-reconstruction-differs-from-PCA", "max diff %.3g" % np.abs(rec - recp).max())
            r.count("pca_limit_checks")
        # (b) regression limit
        if mixing == 0.0 and spec == "linreg":
            rankY = int(np.linalg.matrix_rank(ref.Yhat, tol=1e-9 * max(1.0, np.abs(ref.Yhat).max())))
            if k >= rankY and ref.judgeable(k):
                pred = np.asarray(est.predict(X), float).reshape(n, -1)
                if np.abs(pred - ref.Yhat).max() > 1e-6 * max(1.0, np.abs(Y).max()) * max(1.0, ref.condX):
                    r.fail("mixing-0-differs-from-regression", "max |predict - Yhat_LS| = %.3g (k=%d, rank Yhat=%d)" % (np.abs(pred - ref.Yhat).max(), k, rankY))
                r.count("regression_limit_checks")
    r.count("competitors_evaluated", ncomp)
    r.nontrivial = rankX is not None and 0 < k < rankX and ncomp >= 10
    r.outcome = [k, spec, space, round(lx_prev or 0.0, 6)]
    return r
