"""C01 — every selector returns a consistent set of distinct, valid indices.

E1 over cold fits (9 selector kinds x lattice/generic data x every form of n_to_select x every
threshold equivalence class x initialisations x configuration) and E2 over warm-start chains
(every increasing schedule of n_to_select, with a threshold set in the last leg). Invariants are
evaluated in EVERY post-fit state (after every leg of a chain) on public attributes only; the
score vectors the greedy loop looked at are read through a wrapper on the public score()."""

import itertools
from fractions import Fraction

import numpy as np

from .. import fam, sel
from ..core import R

ID = "C01"
DESIGN_REF = "DESIGN.md §4 C01"
EXPLORER = "E1 product-space (cold fits) + E2 history exploration (warm-start chains, state judged after every leg)"
RULE = (
    "cases = selector kind (FPS, PCovFPS, CUR, PCovCUR in both directions, VoronoiFPS) x data x y x "
    "configuration x initialisation x every n_to_select form {None, every int, every j/(2N) resolving >=1} "
    "x every threshold class (below / between consecutive distinct / above the max scores of the "
    "threshold-free run; absolute and relative) and, for chains, every increasing warm-start schedule; "
    "non-trivial = at least 2 selections made, or a threshold stop, or a chain with >= 2 legs; "
    "distinct = sha1 of the canonical case JSON; states = post-fit states judged, transitions = fit calls"
)
ASSUMPTIONS = [
    "inputs bounded to 2x2..4x4 lattices, generic matrices up to 6x5 and a badly scaled / duplicated catalogue",
    "the kept-selection score clause is judged on the score vectors returned by the selector's own public score() during the fit",
    "relative thresholds are judged only in cold fits (the reference score after a warm start is left open by the statement)",
    "known findings D1 (threshold-stop truncation) and D2 (re-selection once candidates are exhausted) are matched by sharp predicates; any other violation of the same clauses is reported",
]
DEGRADED = set()


# --------------------------------------------------------------------------------------
# alphabets


def _lattice_specs(tier, family):
    if family == "fps":
        specs = [(2, 2, [0, 1, 2]), (2, 3, [0, 1, 2]), (3, 2, [0, 1, 2]), (3, 3, [0, 1])]
        if tier == "thorough":
            specs += [(3, 4, [0, 1]), (4, 3, [0, 1]), (3, 3, [0, 1, 2])]
    else:
        specs = [(2, 2, [0, 1, 2]), (3, 3, [0, 1])]
        if tier == "thorough":
            specs += [(2, 3, [0, 1, 2]), (3, 2, [0, 1, 2]), (3, 4, [0, 1]), (4, 3, [0, 1])]
    return specs


def _special(seed):
    out = []
    for shp in [(3, 3), (4, 3), (3, 5), (5, 4), (6, 5)]:
        for X in fam.generic_list(shp[0], shp[1], seed, 2):
            out.append(("G%dx%d" % shp, X))
    out.append(("dup", [[0.5, 1.0, 2.0], [0.5, 1.0, 2.0], [3.0, -1.0, 0.0], [3.0, -1.0, 0.0], [1.0, 1.0, 1.0]]))
    out.append(("dupcol", [[1.0, 1.0, 2.0, 0.5], [0.0, 0.0, 1.0, 3.0], [2.0, 2.0, -1.0, 1.0], [1.0, 1.0, 0.0, 0.0]]))
    out.append(("badscale", [[1e6, 2e-6, 1.0], [3e6, -1e-6, 2.0], [-2e6, 4e-6, 0.5], [5e5, 1e-6, -1.0]]))
    out.append(("rank1", [[1.0, 2.0, 3.0], [2.0, 4.0, 6.0], [3.0, 6.0, 9.0], [-1.0, -2.0, -3.0]]))
    # repeated rows (the same x measured again): with conflicting targets sample PCov-CUR is drawn to the copies
    Xr = np.array(fam.generic_list(8, 6, seed + 11, 1)[0], float)
    Xr[0:2] *= 3.0
    Xr[6:] = Xr[0:2]
    out.append(("copyrow8x6", Xr.tolist()))
    # the same generic data in very small / large units (exact powers of two)
    g = np.array(fam.generic_list(5, 4, seed, 1)[0], float)
    out.append(("G5x4-unit2^-20", (g * 2.0 ** -20).tolist()))
    out.append(("G5x4-unit2^14", (g * 2.0 ** 14).tolist()))
    return out


def _ys(n, tier="thorough"):
    out = [[float((i * 7 + 3) % 5 - 2) + (9.0 if i == n - 2 else (-8.0 if i == n - 1 else 0.0)) * (n == 8) for i in range(n)], [float(i % 2) for i in range(n)]]
    return out if tier == "thorough" else out[:1]


def _configs(kind, tier):
    if kind == "FPS" or kind == "VoronoiFPS":
        return [dict()]
    if kind == "PCovFPS":
        return [dict(mixing=0.0), dict(mixing=0.5)] if tier == "thorough" else [dict(mixing=0.5)]
    out = []
    mix = [None] if kind == "CUR" else ([0.0, 0.5, 1.0] if tier == "thorough" else [0.5])
    for m in mix:
        for k in (1, 2):
            for re in (0, 1, 2):
                c = dict(k=k, recompute_every=re)
                if m is not None:
                    c["mixing"] = m
                out.append(c)
    return out


def _kinds():
    out = []
    for kind in ("FPS", "PCovFPS", "CUR", "PCovCUR"):
        for d in sel.DIRS:
            out.append((kind, d))
    out.append(("VoronoiFPS", "sample"))
    return out


def bounds(tier, seed):
    return dict(
        kinds=["%s/%s" % kd for kd in _kinds()],
        lattices_fps_family=_lattice_specs(tier, "fps"),
        lattice_strides="quick: none; thorough: ternary 3x3 every 27th (54th for PCov/CUR kinds), binary 3x4 / 4x3 every 8th (16th)",
        lattices_cur_family=_lattice_specs(tier, "cur"),
        special=[l for l, _ in _special(seed)],
        n_to_select="None, every int 1..N, every j/(2N) in (0,1] resolving to >= 1",
        thresholds="absolute and relative: below / between consecutive distinct / above the max scores of the threshold-free run",
        initialisations="FPS: every int, 'random', every ordered list of <= 2 distinct indices (3 in thorough); PCovFPS/VoronoiFPS: every int, 'random'",
        configs={k: _configs(k, tier) for k in ("PCovFPS", "CUR", "PCovCUR")},
        chains="every increasing schedule n1<...<n for n <= min(N,5), threshold None / unreachable / stopping inside the last leg",
        voronoi_full_fraction=[0.5, 1.0],
        seed=seed,
    )


def groups(tier, seed):
    out = []
    for kind, d in _kinds():
        family = "fps" if "FPS" in kind else "cur"
        datas = []
        for (n, m, V) in _lattice_specs(tier, family):
            if kind in ("CUR", "PCovCUR") and min(n, m) < 2:
                continue
            # thorough tier: the large lattices are walked on a fixed stride (stated in the bounds)
            stride = 1
            if tier == "thorough" and n * m >= 9:
                stride = 27 if len(V) == 3 else (8 if n * m == 12 else 1)
                if kind in ("PCovFPS", "PCovCUR", "CUR"):
                    stride *= 2
            for i, X in enumerate(fam.lattice(n, m, V)):
                if i % stride == 0:
                    datas.append(("L%dx%d" % (n, m), X))
        datas += _special(seed)
        for label, X in datas:
            for cfg in _configs(kind, tier):
                if "k" in cfg and cfg["k"] >= min(len(X), len(X[0])):
                    continue  # svds needs k < min(shape): documented ValueError, not a behaviour
                out.append(dict(mode="cold", kind=kind, dir=d, label=label, X=X, cfg=cfg, tier=tier))
        # chains on the special family + a slice of the lattices
        chain_datas = _special(seed) + [(l, X) for i, (l, X) in enumerate(datas) if l.startswith("L") and i % 17 == 5]
        for label, X in chain_datas:
            for cfg in _configs(kind, tier):
                if "k" in cfg and cfg["k"] >= min(len(X), len(X[0])):
                    continue
                out.append(dict(mode="chain", kind=kind, dir=d, label=label, X=X, cfg=cfg, tier=tier))
    return out


def _n_forms(N):
    forms = [None] + list(range(1, N + 1))
    for j in range(1, 2 * N + 1):
        f = j / (2.0 * N)
        if int(Fraction(f) * N) >= 1:
            forms.append(f)
    return forms


def _inits(kind, N, tier):
    if kind in ("CUR", "PCovCUR"):
        return [None]
    out = list(range(N)) + ["random"]
    if kind == "FPS":
        out += [list(p) for p in itertools.permutations(range(N), 2)]
        if tier == "thorough" and N <= 4:
            out += [list(p) for p in itertools.permutations(range(N), 3)]
    return out


def _params(kind, cfg, init, n, thr=None, ttype="absolute"):
    p = dict(cfg)
    p["n_to_select"] = n
    if init is not None:
        p["initialize"] = init
    if thr is not None:
        p["score_threshold"] = thr
        p["score_threshold_type"] = ttype
    if kind == "VoronoiFPS":
        p.setdefault("full_fraction", 0.5)
    return p


def _threshold_classes(kind, d, X, y, cfg, init, n):
    """Equivalence classes of thresholds, from the max scores along the threshold-free run."""
    s = sel.make(kind, d, **_params(kind, cfg, init, n))
    rec = sel.ScoreRecorder(s)
    sel.fit_quiet(s, np.array(X, float), None if y is None else np.array(y, float))
    ms = [float(np.max(v)) for v in rec.scores if np.size(v)]
    ms = sorted({m for m in ms if np.isfinite(m)})
    # merge values that differ only at rounding level (ARPACK start vectors): classes stay reproducible
    merged = []
    for m in ms:
        if not merged or abs(m - merged[-1]) > 1e-7 * max(1.0, abs(m)):
            merged.append(m)
    ms = merged
    if not ms:
        return [], []
    absolute = [ms[0] - abs(ms[0]) * 0.5 - 1.0]
    absolute += [(a + b) / 2.0 for a, b in zip(ms[:-1], ms[1:])]
    absolute.append(ms[-1] * 2.0 + 1.0)
    first = None
    for v in rec.scores:
        if np.size(v):
            first = float(np.max(v))
            break
    relative = []
    if first and np.isfinite(first) and first > 0:
        rs = [m / first for m in ms]
        relative = [rs[0] * 0.5 - 0.1] + [(a + b) / 2.0 for a, b in zip(rs[:-1], rs[1:])] + [rs[-1] * 2.0 + 1.0]
    return absolute, relative


def cases(group):
    kind, d, X, cfg, tier = group["kind"], group["dir"], group["X"], group["cfg"], group["tier"]
    N = sel.n_items(X, d)
    ylist = _ys(len(X), tier) if sel.needs_y(kind) else ([None] + (_ys(len(X))[:1] if d == "sample" else []))
    lite = (tier == "quick" and group["label"].startswith("L3")) or (tier == "thorough" and group["label"] in ("L3x4", "L4x3"))
    if group["mode"] == "cold":
        for y in ylist:
            for init in _inits(kind, N, tier):
                if lite and isinstance(init, list) and init[0] > init[1]:
                    continue
                n0 = len(init) if isinstance(init, list) else 1
                for n in _n_forms(N):
                    nres = sel.resolve_n(n, N)
                    if nres is None or nres < n0:
                        continue
                    if lite and isinstance(n, float) and init not in (None, 0):
                        continue
                    yield dict(kind=kind, dir=d, X=X, y=y, legs=[dict(p=_params(kind, cfg, init, n))])
                # thresholds: crossed with the int forms whose run can be stopped, and None
                if isinstance(init, list) and (lite or (len(init) > 1 and init[0] > init[1])):
                    continue  # threshold classes x list inits: ascending pairs only
                if lite and d == "sample" and y is not None and not sel.needs_y(kind):
                    continue
                if lite and init not in (None, 0, "random"):
                    continue
                ab, rel = _threshold_classes(kind, d, X, y, cfg, init, N)
                for n in [None, N, max(n0, N - 1)]:
                    nres = sel.resolve_n(n, N)
                    if nres is None or nres < n0:
                        continue
                    for t in ab:
                        yield dict(kind=kind, dir=d, X=X, y=y, legs=[dict(p=_params(kind, cfg, init, n, t, "absolute"))])
                    for t in rel:
                        yield dict(kind=kind, dir=d, X=X, y=y, legs=[dict(p=_params(kind, cfg, init, n, t, "relative"))])
                        if not group["label"].startswith("L") and n == N:
                            yield dict(kind=kind, dir=d, X=X, y=y, legs=[dict(p=_params(kind, cfg, init, n, t, "relative"))], used=True)
    else:
        top = min(N, 5)
        for y in ylist[:1] if not sel.needs_y(kind) else ylist[:1]:
            inits = [None] if kind in ("CUR", "PCovCUR") else [0, N - 1]
            if kind == "FPS":
                inits.append([1, 0])
            for init in inits:
                n0 = len(init) if isinstance(init, list) else 1
                ab, _ = _threshold_classes(kind, d, X, y, cfg, init, top)
                thr_menu = [None]
                if ab:
                    thr_menu += [ab[0]] + ab[1:-1]
                for sched in fam.increasing_schedules(top, start_min=n0):
                    for thr in thr_menu:
                        legs = []
                        for i, n in enumerate(sched):
                            p = _params(kind, cfg, init, n)
                            if thr is not None and i == len(sched) - 1:
                                p["score_threshold"] = thr
                            legs.append(dict(p=p))
                        yield dict(kind=kind, dir=d, X=X, y=y, legs=legs)
                        if thr is None and len(sched) >= 2:
                            # the same chain with an unrelated selector of the same class fitted on other
                            # same-shape data before every warm leg
                            yield dict(kind=kind, dir=d, X=X, y=y, legs=legs, sibling=True)


# --------------------------------------------------------------------------------------
# judging one post-fit state


def _expected_sizes(n_to_select, N):
    if n_to_select is None:
        return {N // 2}
    if isinstance(n_to_select, int):
        return {n_to_select}
    exact = Fraction(n_to_select) * N
    out = {int(exact)}
    near = round(exact)
    if abs(exact - near) < Fraction(1, 10**9):
        out.add(int(near))
    return out


def _exhausted_fps(D, idx_prefix, N, tol):
    """Reference: no unselected candidate has positive distance to the selected set."""
    selset = sorted(set(idx_prefix))
    if not selset:
        return False
    h = D[:, selset].min(axis=1)
    uns = [i for i in range(N) if i not in selset]
    return (not uns) or float(h[uns].max()) <= tol


def judge_state(r, s, kind, d, X, y, p, warned_threshold, scores, leg_is_warm, n_before):
    """Invariants on public attributes after one (cold or warm) fit. Returns True if the
    state was affected by the known threshold-truncation finding (D1)."""
    axis = sel.axis_of(d)
    N = X.shape[axis]
    try:
        idx = np.asarray(s.selected_idx_)
        n_sel = int(s.n_selected_)
        Xs = np.asarray(s.X_selected_)
    except AttributeError as e:
        r.fail("missing-attribute", repr(e))
        return False
    idx_l = [int(i) for i in idx]
    ys = getattr(s, "y_selected_", None) if (d == "sample" and y is not None) else None

    # ---- lengths
    lens = dict(idx=len(idx_l), n_selected=n_sel, X_selected=Xs.shape[axis])
    if ys is not None:
        lens["y_selected"] = int(np.asarray(ys).shape[0])
    consistent = len(set(lens.values())) == 1
    d1 = False
    if not consistent:
        # known finding D1, sharp: after a threshold stop the stored rows/columns have the right count
        # (n_selected_) and the right width, while selected_idx_ (and y_selected_) were cut at the LOOP
        # INDEX of this fit (= number of score() calls of this fit - 1)
        loop_index = (len(scores) - 1) if scores else None
        other = Xs.shape[1 - axis] == X.shape[1 - axis]
        if (
            warned_threshold
            and lens["X_selected"] == n_sel
            and other
            and loop_index is not None
            and lens["idx"] == min(loop_index, n_sel)
            and lens.get("y_selected", lens["idx"]) == lens["idx"]
        ):
            d1 = True
            r.fail("D1-threshold-stop-truncation", "after a threshold stop: %s" % lens)
        else:
            r.fail("length-mismatch", "%s (X_selected_ shape %s)" % (lens, Xs.shape))
    expected = _expected_sizes(p.get("n_to_select"), N)
    if n_sel not in expected:
        if not warned_threshold:
            r.fail("size-not-implied-by-n_to_select", "n_selected_=%d, n_to_select=%r resolves to %s" % (n_sel, p.get("n_to_select"), sorted(expected)))
        elif n_sel > max(expected):
            r.fail("size-exceeds-request", "n_selected_=%d > %s" % (n_sel, sorted(expected)))
    if warned_threshold and p.get("score_threshold") is None:
        r.fail("threshold-warning-without-threshold", "")

    # ---- range / distinctness
    if any(i < 0 or i >= N for i in idx_l):
        r.fail("index-out-of-range", idx_l)
        return d1
    if len(set(idx_l)) != len(idx_l):
        _judge_duplicates(r, s, kind, d, X, y, p, idx_l, scores, n_before)

    # ---- derived views (w.r.t. the reported sequence)
    take = X[idx_l] if axis == 0 else X[:, idx_l]
    if Xs.shape == take.shape:
        if not np.array_equal(Xs, take):
            r.fail("X_selected-not-slice", "X_selected_ != X at %s" % idx_l)
    elif not d1:
        r.fail("X_selected-shape", "%s vs %s" % (Xs.shape, take.shape))
    if ys is not None:
        yt = np.asarray(y, float).reshape(len(y), -1)[idx_l]
        ya = np.asarray(ys, float)
        if ya.shape == yt.shape:
            if not np.array_equal(ya, yt):
                r.fail("y_selected-not-slice", "y_selected_ %s vs y[idx] %s" % (ya.ravel().tolist(), yt.ravel().tolist()))
        elif not d1:
            r.fail("y_selected-shape", "%s vs %s" % (ya.shape, yt.shape))
    try:
        sup = np.asarray(s.support_)
        if sup.shape != (N,) or sup.dtype != bool or set(np.where(sup)[0].tolist()) != set(idx_l):
            r.fail("support-mask-wrong", "support_ %s idx %s" % (sup.tolist(), idx_l))
        m = np.asarray(s.get_support())
        if not np.array_equal(m, sup):
            r.fail("get_support-mask-differs", "")
        gi = [int(i) for i in s.get_support(indices=True)]
        if gi != sorted(idx_l):
            r.fail("get_support-indices-not-sorted-selection", "%s vs %s" % (gi, sorted(idx_l)))
        go = [int(i) for i in s.get_support(indices=True, ordered=True)]
        if go != idx_l:
            r.fail("get_support-ordered-differs", "%s vs %s" % (go, idx_l))
        if d == "feature":
            T = np.asarray(s.transform(X))
            if not np.array_equal(T, X[:, sup]):
                r.fail("transform-not-masked-columns", "transform shape %s" % (T.shape,))
        # read-only accessors must leave the reported selection as it was
        after = [int(i) for i in np.asarray(s.selected_idx_)]
        if after != idx_l or not np.array_equal(np.asarray(s.X_selected_), Xs):
            r.fail("accessor-changes-the-selection", "selected_idx_ %s became %s after get_support / transform" % (idx_l, after))
    except Exception as e:
        r.fail("derived-view-crash:%s" % type(e).__name__, repr(e))

    # ---- threshold clauses (on the score vectors the loop looked at)
    thr = p.get("score_threshold")
    if thr is not None and scores:
        ttype = p.get("score_threshold_type", "absolute")
        picks_after = idx_l  # greedy picks correspond to score calls in order
        first = float(np.max(scores[0])) if np.size(scores[0]) else None
        n_calls = len(scores)
        n_kept = n_calls - 1 if warned_threshold else n_calls
        for c in range(n_kept):
            v = scores[c]
            mx = float(np.max(v))
            if ttype == "absolute":
                bad = mx < thr
            elif leg_is_warm or first is None or first == 0:
                bad = False
            else:
                bad = mx / first < thr
            if bad:
                r.fail("kept-selection-below-threshold", "greedy step %d had max score %.6g, threshold %.6g (%s)" % (c, mx, thr, ttype))
                break
        if warned_threshold:
            mx = float(np.max(scores[-1]))
            if ttype == "absolute" and not (mx < thr):
                r.fail("stopped-although-score-reaches-threshold", "max score %.6g >= threshold %.6g" % (mx, thr))
            if ttype == "relative" and not leg_is_warm and first and not (mx / first < thr):
                r.fail("stopped-although-score-reaches-threshold", "ratio %.6g >= threshold %.6g" % (mx / first, thr))
    return d1


def _judge_duplicates(r, s, kind, d, X, y, p, idx_l, scores, n_before):
    """Duplicates are the known finding D2 only if, at the step of the first repeated pick, the
    reference model had no unselected candidate with positive score."""
    N = X.shape[sel.axis_of(d)]
    seen = []
    first_dup = None
    for t, i in enumerate(idx_l):
        if i in seen:
            first_dup = t
            break
        seen.append(i)
    prefix = idx_l[:first_dup]
    if kind in ("FPS", "VoronoiFPS", "PCovFPS"):
        D, scale, ok = sel.distance_matrix(kind, d, X, y, p.get("mixing"))
        tol = 1e-9 * scale + 1e-12
        if ok and _exhausted_fps(D, prefix, N, tol):
            r.fail("D2-reselection-when-exhausted", "duplicate %s after all distinct items were taken (%s)" % (idx_l[first_dup], idx_l))
        else:
            r.fail("duplicate-index", "%s repeated at step %d while a distinct candidate with positive distance remains: %s" % (idx_l[first_dup], first_dup, idx_l))
        return
    # CUR family: the documented choice is argmax of the importance score over unselected items
    re = p.get("recompute_every", 1)
    k = p.get("k", 1)
    exhausted = False
    c = first_dup - n_before  # score call index of the duplicate step within this leg
    if scores and 0 <= c < len(scores):
        v = np.asarray(scores[c], float)
        uns = [i for i in range(N) if i not in set(prefix)]
        ref = max(1.0, float(np.max(np.abs(scores[0])))) if np.size(scores[0]) else 1.0
        exhausted = (not uns) or float(np.max(v[uns])) <= 1e-9 * ref
    if exhausted:
        r.fail(
            "D2-reselection-when-exhausted",
            "duplicate %s at step %d: no unselected candidate has a positive score (k=%d, recompute_every=%d, %s)" % (idx_l[first_dup], first_dup, k, re, idx_l),
        )
    else:
        r.fail("duplicate-index", "%s repeated at step %d although an unselected candidate has a positive score: %s" % (idx_l[first_dup], first_dup, idx_l))


def check(case):
    r = R()
    kind, d = case["kind"], case["dir"]
    X = np.array(case["X"], float)
    y = None if case["y"] is None else np.array(case["y"], float)
    legs = case["legs"]
    s = None
    r.states = 0
    r.transitions = 0
    n_before = 0
    stops = 0
    for li, leg in enumerate(legs):
        p = leg["p"]
        if li == 0:
            s = sel.make(kind, d, **p)
            if case.get("used"):  # a USED selector: cold-fitted before on other data of the same shape
                Xo = X[::-1, ::-1].copy() * 40.0 + 3.0
                yo = None if y is None else (y[::-1].copy() * -0.5 + 0.25)
                _, exc0 = sel.fit_quiet(s, Xo, yo)
                if exc0 is not None:
                    r.fail("crash:%s" % type(exc0).__name__, "first fit of the used selector: %r" % exc0)
                    return r
                sel.query_all(s, Xo)
                # the caller refills the same array objects in place and passes them again
                if bool(np.all(X == np.round(X))) and np.abs(X).max() < 1e6:
                    # integer-valued data: the caller's buffer is an INTEGER array (validation has to convert it)
                    Xi = np.round(Xo).astype(np.int64)
                    s2 = sel.make(kind, d, **p)
                    _, exc1 = sel.fit_quiet(s2, Xi, yo)
                    if exc1 is None:
                        s = s2
                        Xi[...] = X.astype(np.int64)
                        Xo = Xi
                Xo[...] = X
                X = Xo
                if yo is not None:
                    yo[...] = y
                    y = yo
        else:
            for key in ("n_to_select", "score_threshold", "score_threshold_type"):
                if key in p:
                    setattr(s, key, p[key])  # VoronoiFPS hides these from set_params (**kwargs)
            n_before = int(getattr(s, "n_selected_", 0))
            if case.get("sibling"):
                sibling = sel.sibling_fit(kind, d, X, y, legs[li - 1]["p"])  # noqa: F841 (kept alive)
                r.count("warm_legs_after_sibling_fit")
        # (re)install the recorder for this leg
        if "score" in vars(s):
            del s.score
        rec = sel.ScoreRecorder(s)
        if not rec.ok:
            DEGRADED.add("score() not wrappable: threshold clauses not judged")
        w, exc = sel.fit_quiet(s, X, y, warm_start=li > 0)
        if "score" in vars(s):
            del s.score
        r.transitions += 1
        if exc is not None:  # every configuration of this alphabet is admissible
            r.fail("crash:%s" % type(exc).__name__, "leg %d %r: %r" % (li, p, exc))
            return r
        warned = any("Score threshold" in m for m in w)
        if warned:
            stops += 1
        if li == 0:
            nb = 0 if kind in ("CUR", "PCovCUR") else (len(p["initialize"]) if isinstance(p.get("initialize"), list) else 1)
        else:
            nb = n_before
        d1 = judge_state(r, s, kind, d, X, y, p, warned, rec.scores if rec.ok else [], li > 0, nb)
        r.states += 1
        if d1 or warned:
            break  # the state after a stop is final for the chain (continuing is C08's topic)
        if len(set(int(i) for i in s.selected_idx_)) != len(s.selected_idx_):
            break  # duplicates were judged in the leg that produced them; later legs inherit them
    if r.states == 0:
        return r.skip("no state reached")
    n_sel = int(getattr(s, "n_selected_", 0))
    r.nontrivial = n_sel >= 2 or stops > 0 or len(legs) >= 2
    if stops:
        r.count("threshold_stops")
    if len(legs) >= 2:
        r.count("warm_chains")
    if len(set(int(i) for i in s.selected_idx_)) != len(s.selected_idx_):
        r.count("exhausted_candidate_cases")
    r.outcome = [kind, d, [int(i) for i in s.selected_idx_], n_sel]
    return r
