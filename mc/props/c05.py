"""C05 — KernelPCovR agrees with PCovR and its kernel plumbing; scores any held-out set.

E1 over (data, Y, mixing, n_components, kernel and its parameters, center, regressor) with a
complete inner walk over held-out set sizes {1, n-2, n, n+3}. Oracles: (1) linear kernel ==
the real sample-space PCovR with the equivalent Ridge (differential, up to sign under the gap
rule); (2) named kernel == the same kernel precomputed with sklearn's pairwise_kernels;
(3) center=True == explicitly normalising train and test kernels with KernelNormalizer;
(4) mixing=1 on a centred kernel == sklearn KernelPCA up to sign and the sqrt of the global
scale; (5) transform / predict / score accept every held-out size; (6) score == -(l_K + l_Y)
with l_K the DOCUMENTED loss recomputed independently from K_VV, K_VN and K_NN (kernels centred
by an independent feature-space formula when center=True), and equals the in-sample formula
on the training set."""

import warnings

import numpy as np

from .. import fam
from ..core import R

ID = "C05"
DESIGN_REF = "DESIGN.md §4 C05"
EXPLORER = "E1 product-space with inner walk over held-out set sizes"
RULE = (
    "cases = (generic data 6..9 samples x 2..4 features + centred lattice slices) x Y (1..2 targets) x mixing in "
    "{0.2,0.5,1} x k in {1,2,3} x kernel in {linear, rbf(.3), rbf(1), poly(2,c0=0), poly(3,c0=1), sigmoid(.01,0), cosine} "
    "x center in {F,T} x regressor in {None, unfitted KernelRidge(alpha), fitted KernelRidge, precomputed+W, precomputed-W}; "
    "each case walks held-out sizes {1,n-2,n,n+3} and the differential partners; non-trivial = score judged on a "
    "held-out set of size != n and at least one differential oracle compared; states = (estimator, held-out set) states judged"
)
ASSUMPTIONS = [
    "latent coordinates are compared up to sign per component and only under the gap rule (relative gap > 1e-6 of the modified Gram matrix)",
    "kernels with an eigenvalue below -1e-10*lambda_1 (not positive semi-definite) are skipped",
    "closeness 1e-6 relative to the scale of the compared quantity",
    "a pre-fitted KernelRidge is only combined with center=False (it was fitted on the uncentred kernel)",
]
DEGRADED = set()

KERNELS = [
    dict(kernel="linear"),
    dict(kernel="rbf", gamma=0.3),
    dict(kernel="rbf", gamma=1.0),
    dict(kernel="poly", degree=2, coef0=0, gamma=0.5),
    dict(kernel="poly", degree=3, coef0=1, gamma=0.25),
    dict(kernel="sigmoid", gamma=0.01, coef0=0),
    dict(kernel="cosine"),
]
REGS = ["none", "krr", "krr-fitted", "pre+W", "pre-W", "pre-inconsistent"]
MIXINGS = [0.2, 0.5, 1.0]


def _datas(tier, seed):
    out = []
    shapes = [(6, 2), (7, 3), (8, 4)] if tier == "quick" else [(6, 2), (7, 3), (8, 4), (9, 3), (10, 4), (6, 4)]
    for (n, m) in shapes:
        for j, X in enumerate(fam.generic_list(n, m, seed, 2 if tier == "quick" else 10, kind="centered")):
            Y1 = np.array(fam.generic_vec(n, seed, j, 1), float)
            Y2 = np.array(fam.generic_vec(n, seed, j + 50, 2), float)
            out.append(("G%dx%d" % (n, m), X, [(Y1 - Y1.mean(0)).tolist(), (Y2 - Y2.mean(0)).tolist()]))
    step = 401 if tier == "quick" else 41
    for i, X in enumerate(fam.lattice(4, 2, [0, 1, 2])):
        if i % step == 7:
            Xc = np.array(X, float) - np.mean(X, axis=0)
            if np.linalg.matrix_rank(Xc) == 2:
                Y = np.array([[0.5], [-1.0], [1.5], [-1.0]])
                out.append(("L4x2", Xc.tolist(), [Y.tolist()]))
    return out


def bounds(tier, seed):
    ds = _datas(tier, seed)
    return dict(
        data={l: sum(1 for a, _, _ in ds if a == l) for l in sorted({l for l, _, _ in ds})},
        kernels=KERNELS,
        mixing=MIXINGS,
        k=[1, 2, 3],
        center=[False, True],
        regressors=REGS,
        held_out_sizes="1, n-2, n, n+3",
        seed=seed,
    )


def groups(tier, seed):
    return [dict(label=l, X=X, Ys=Ys, tier=tier) for l, X, Ys in _datas(tier, seed)]


def cases(group):
    X = group["X"]
    n = len(X)
    for Y in group["Ys"]:
        for kp in KERNELS:
            for center in (False, True):
                for reg in REGS:
                    if reg == "krr-fitted" and center:
                        continue
                    for mixing in MIXINGS:
                        for k in (1, 2, 3):
                            if k >= n:
                                continue
                            if group["tier"] == "quick" and reg in ("pre+W", "pre-W", "krr-fitted", "pre-inconsistent") and (k != 2 or mixing != 0.5):
                                continue
                            yield dict(X=X, Y=Y, kp=kp, center=center, reg=reg, mixing=mixing, k=k)


# --------------------------------------------------------------------------------------


def _kernel(A, B, kp):
    from sklearn.metrics.pairwise import pairwise_kernels

    params = {k: v for k, v in kp.items() if k != "kernel"}
    return pairwise_kernels(A, B, metric=kp["kernel"], filter_params=True, **params)


def _new_rows(n_new, m, seed_rows):
    return np.array([[0.75 * np.sin(1.3 * i + 0.7 * j + seed_rows) + 0.1 * j for j in range(m)] for i in range(n_new)], float)


def _center_blocks(K_NN, K_VN, K_VV):
    """Independent feature-space centring + global scale (trace of the centred train kernel = n)."""
    n = K_NN.shape[0]
    col = K_NN.mean(axis=0)
    tot = K_NN.mean()
    Kc_NN = K_NN - col[None, :] - col[:, None] + tot
    scale = np.trace(Kc_NN) / n
    a = K_VN.mean(axis=1)
    Kc_VN = K_VN - col[None, :] - a[:, None] + tot
    Kc_VV = K_VV - a[:, None] - a[None, :] + tot
    return Kc_NN / scale, Kc_VN / scale, Kc_VV / scale, scale


def _make(kp, center, reg, mixing, k, X, Y, alpha=1e-3):
    """Build the real estimator (+ fit arguments) for a regressor spec."""
    from sklearn.kernel_ridge import KernelRidge

    from skmatter.decomposition import KernelPCovR

    kw = dict(mixing=mixing, n_components=k, svd_solver="full", center=center, tol=1e-12, **kp)
    fit_Y, fit_W = Y, None
    if reg == "none":
        est = KernelPCovR(regressor=None, **kw)
    elif reg == "krr":
        est = KernelPCovR(regressor=KernelRidge(alpha=alpha, **_krr_params(kp)), **kw)
    elif reg == "krr-fitted":
        krr = KernelRidge(alpha=alpha, **_krr_params(kp)).fit(X, Y)
        est = KernelPCovR(regressor=krr, **kw)
    else:
        K = _kernel(X, X, kp)
        if center:
            K = _center_blocks(K, K, K)[0]
        Wd = np.linalg.solve(K + alpha * np.eye(len(K)), np.asarray(Y, float).reshape(len(K), -1))
        fit_Y = K @ Wd
        fit_W = Wd if reg == "pre+W" else None
        if reg == "pre-inconsistent":
            # regressed targets from an external model: not of the form K W for the weights that are passed
            fit_Y = np.asarray(Y, float).reshape(len(K), -1) * 0.8 + 0.1 * np.sin(np.arange(len(K)))[:, None]
            fit_W = Wd
        est = KernelPCovR(regressor="precomputed", **kw)
    return est, fit_Y, fit_W


def _krr_params(kp):
    p = dict(kernel=kp["kernel"], gamma=kp.get("gamma"), degree=kp.get("degree", 3), coef0=kp.get("coef0", 1))
    return p


def _fit(est, X, Y, W):
    with warnings.catch_warnings():
        warnings.simplefilter("ignore")
        try:
            if W is not None:
                est.fit(X, Y, W=W)
            else:
                est.fit(X, Y)
            return None
        except Exception as e:
            return e


def _same_gram(Av, An, Bv, Bn, tol):
    """Sign-free (and, within degenerate eigenvalues, rotation-free) comparison of latent
    coordinates: the cross Gram matrix with the training projection must agree."""
    if Av.shape != Bv.shape or An.shape != Bn.shape:
        return False
    return bool(np.abs(Av @ An.T - Bv @ Bn.T).max() <= tol)


def check(case):
    r = R()
    X = np.array(case["X"], float)
    Y = np.array(case["Y"], float)
    kp, center, reg, mixing, k = case["kp"], case["center"], case["reg"], case["mixing"], case["k"]
    n, m = X.shape
    K_NN_raw = _kernel(X, X, kp)
    ev = np.linalg.eigvalsh((K_NN_raw + K_NN_raw.T) / 2)
    if ev[0] < -1e-10 * max(ev[-1], 1e-300):
        return r.skip("kernel not positive semi-definite on this data")
    est, fit_Y, fit_W = _make(kp, center, reg, mixing, k, X, Y)
    if (k + int(round(mixing * 10))) % 2 == 0 and reg in ("none", "krr"):
        # a USED estimator: fitted before on other data of the same shape
        Xo, Yo = np.ascontiguousarray(X[::-1, ::-1] * 0.75 + 0.25), np.ascontiguousarray(np.asarray(fit_Y, float)[::-1] * -0.5)
        # ... with OTHER hyper-parameters (centring flipped, another mixing), restored through set_params afterwards
        est.set_params(center=not center, mixing=0.25 if mixing == 0.5 else 0.5)
        exc0 = _fit(est, Xo, Yo, None)
        if exc0 is not None:
            return R().fail("crash:%s" % type(exc0).__name__, "first fit of the used estimator: %r" % exc0)
        try:  # use it (transform / predict / score fill whatever the estimator caches)
            est.transform(Xo), est.predict(Xo), est.score(Xo, Yo)
        except Exception as e0:
            return R().fail("crash:%s" % type(e0).__name__, "using the estimator before the refit: %r" % e0)
        est.set_params(center=center, mixing=mixing)
        if isinstance(fit_Y, np.ndarray) and fit_Y.shape == Yo.shape and fit_W is None:
            # the caller refills the same array objects in place and passes them again
            Xo[...] = X
            Yo[...] = fit_Y
            exc = _fit(est, Xo, Yo, None)
        else:
            exc = _fit(est, X, fit_Y, fit_W)
    else:
        exc = _fit(est, X, fit_Y, fit_W)
    if exc is not None:
        return r.fail("crash:%s" % type(exc).__name__, "fit: %r" % exc)
    r.states = 0
    r.transitions = 1
    Yfit = np.asarray(fit_Y, float).reshape(n, -1)

    # reference modified Gram matrix for the gap rule
    if center:
        Kc_NN = _center_blocks(K_NN_raw, K_NN_raw, K_NN_raw)[0]
    else:
        Kc_NN = K_NN_raw
    T_N = np.asarray(est.transform(X), float)
    pred_N = np.asarray(est.predict(X), float).reshape(n, -1)
    Yhat = Kc_NN @ _dual_weights(est, reg, Kc_NN, Yfit, fit_W)
    Kt = mixing * Kc_NN + (1 - mixing) * (Yhat @ Yhat.T)
    lam = np.linalg.eigvalsh((Kt + Kt.T) / 2)[::-1]
    lam1 = max(lam[0], 1e-300)
    gap_ok = (lam[k - 1] - (lam[k] if k < n else 0.0)) / lam1 > 1e-6 and lam[k - 1] / lam1 > 1e-9
    tolT = 1e-6 * np.sqrt(lam1) + 1e-12
    ny = max(1.0, float(np.abs(Yfit).max()))
    diff_oracles = 0

    sizes = sorted({1, max(1, n - 2), n, n + 3})
    news = {v: _new_rows(v, m, 0.37 * v) for v in sizes}
    Ynews = {v: np.array([[0.5 * np.cos(0.9 * i + j) + 0.25 for j in range(Yfit.shape[1])] for i in range(v)], float) for v in sizes}

    # ---- (5)+(6): every held-out size, score == -(l_K + l_Y)
    held_out_judged = False
    for v in sizes + ["train"]:
        Xv = X if v == "train" else news[v]
        Yv = Yfit if v == "train" else Ynews[v]
        try:
            Tv = np.asarray(est.transform(Xv), float)
            pv = np.asarray(est.predict(Xv), float).reshape(len(Xv), -1)
        except Exception as e:
            r.fail("held-out-crash:%s" % type(e).__name__, "transform/predict with %s samples: %r" % (v, e))
            continue
        if Tv.shape != (len(Xv), k) or pv.shape != Yv.shape:
            r.fail("held-out-shape", "size %s: T %s pred %s" % (v, Tv.shape, pv.shape))
            continue
        try:
            with warnings.catch_warnings():
                warnings.simplefilter("ignore")
                sc = float(est.score(Xv, Yv))
        except Exception as e:
            r.fail("score-crash:%s" % type(e).__name__, "score on %s samples (n_train=%d, center=%s): %r" % (v, n, center, e))
            continue
        K_VN = _kernel(Xv, X, kp)
        K_VV = _kernel(Xv, Xv, kp)
        if center:
            KN, KVN, KVV, _ = _center_blocks(K_NN_raw, K_VN, K_VV)
        else:
            KN, KVN, KVV = K_NN_raw, K_VN, K_VV
        G = np.linalg.pinv(T_N.T @ T_N, rcond=1e-12)
        w = T_N @ G @ Tv.T  # N x V
        lk = float(np.trace(KVV - 2 * KVN @ w + w.T @ KN @ w) / np.trace(KVV))
        ly = float(((Yv - pv) ** 2).sum() / (Yv ** 2).sum())
        r.states += 1
        if not np.isfinite(sc) or abs(sc + lk + ly) > 1e-6 * max(1.0, abs(lk + ly)):
            r.fail(
                "score-differs-from-documented-loss",
                "%s samples (n_train=%d, center=%s): score %.10g, -(l_K + l_Y) = %.10g" % (v, n, center, sc, -(lk + ly)),
            )
        elif v != "train" and v != n:
            held_out_judged = True
        if v == sizes[1] and not r.violations:
            # the same call with integer-typed targets of a NARROW dtype and large magnitude (counts ~ 1e5 as int32)
            Yi = np.round(Yv * 90000.0).astype(np.int32)
            if np.abs(Yi).max() > 0:
                try:
                    with warnings.catch_warnings():
                        warnings.simplefilter("ignore")
                        sci = float(est.score(Xv, Yi))
                    lyi = float(((Yi.astype(float) - pv) ** 2).sum() / (Yi.astype(float) ** 2).sum())
                    if not np.isfinite(sci) or abs(sci + lk + lyi) > 1e-6 * max(1.0, abs(lk + lyi)):
                        r.fail("score-differs-from-documented-loss", "int32 targets, %s samples: score %.10g, -(l_K + l_Y) = %.10g" % (v, sci, -(lk + lyi)))
                except Exception as e:
                    r.fail("score-crash:%s" % type(e).__name__, "int32 targets: %r" % e)
    if r.violations:
        return r

    # ---- (0) every kernel: T T^T is the rank-k spectral truncation of the reference K~
    if gap_ok and reg not in ("krr-fitted", "pre-inconsistent"):
        w_, V_ = np.linalg.eigh((Kt + Kt.T) / 2)
        V_, w_ = V_[:, ::-1][:, :k], w_[::-1][:k]
        Kk = (V_ * w_) @ V_.T
        if np.abs(T_N @ T_N.T - Kk).max() > 1e-5 * lam1:
            r.fail("latent-gram-differs-from-spectral-truncation", "max |T T^T - K~_k| = %.3g, lambda_1 = %.3g" % (np.abs(T_N @ T_N.T - Kk).max(), lam1))
        elif np.abs(pred_N - V_ @ (V_.T @ Yfit)).max() > 1e-5 * ny:
            r.fail("training-predictions-differ-from-projected-targets", "max diff %.3g" % np.abs(pred_N - V_ @ (V_.T @ Yfit)).max())
        diff_oracles += 1

    # ---- (1) linear kernel == sample-space PCovR with the equivalent ridge
    if kp["kernel"] == "linear" and not center and reg == "krr" and gap_ok:
        from sklearn.linear_model import Ridge

        from skmatter.decomposition import PCovR

        p = PCovR(mixing=mixing, n_components=k, space="sample", svd_solver="full", regressor=Ridge(alpha=1e-3, fit_intercept=False, tol=1e-12))
        with warnings.catch_warnings():
            warnings.simplefilter("ignore")
            p.fit(X, Y)
        r.transitions += 1
        for v in ["train"] + sizes:
            Xv = X if v == "train" else news[v]
            if not _same_gram(np.asarray(est.transform(Xv)), T_N, np.asarray(p.transform(Xv)), np.asarray(p.transform(X)), tolT * tolT * 1e7):
                r.fail("linear-kernel-differs-from-PCovR-projection", "held-out size %s" % v)
                break
            if np.abs(np.asarray(est.predict(Xv)).reshape(len(Xv), -1) - np.asarray(p.predict(Xv)).reshape(len(Xv), -1)).max() > 1e-5 * ny:
                r.fail("linear-kernel-differs-from-PCovR-prediction", "held-out size %s" % v)
                break
        diff_oracles += 1

    # ---- (2) named kernel == precomputed kernel ; (3) center=True == manual KernelNormalizer
    if reg in ("none", "krr"):
        from sklearn.kernel_ridge import KernelRidge

        from skmatter.decomposition import KernelPCovR
        from skmatter.preprocessing import KernelNormalizer

        regr = None if reg == "none" else KernelRidge(alpha=1e-3, kernel="precomputed")
        if not center:
            e2 = KernelPCovR(mixing=mixing, n_components=k, svd_solver="full", kernel="precomputed", regressor=regr, center=False, tol=1e-12)
            exc2 = _fit(e2, K_NN_raw, Y, None)
            feed = lambda Xv: K_NN_raw if Xv is X else _kernel(Xv, X, kp)  # noqa: E731  (the SAME train kernel array is reused)
            name = "precomputed-kernel"
        elif (k + len(X)) % 2:
            # precomputed kernel with the estimator's own centring; the train kernel array is reused after fit
            e2 = KernelPCovR(mixing=mixing, n_components=k, svd_solver="full", kernel="precomputed", regressor=regr, center=True, tol=1e-12)
            Kuser = K_NN_raw.copy()
            exc2 = _fit(e2, Kuser, Y, None)
            feed = lambda Xv: Kuser if Xv is X else _kernel(Xv, X, kp)  # noqa: E731
            name = "precomputed-kernel-centred"
        else:
            kn = KernelNormalizer()
            Kn = kn.fit_transform(K_NN_raw.copy())
            e2 = KernelPCovR(mixing=mixing, n_components=k, svd_solver="full", kernel="precomputed", regressor=regr, center=False, tol=1e-12)
            exc2 = _fit(e2, Kn, Y, None)
            feed = lambda Xv: kn.transform(_kernel(Xv, X, kp))  # noqa: E731
            name = "manual-KernelNormalizer"
        r.transitions += 1
        if exc2 is not None:
            r.fail("partner-crash:%s" % type(exc2).__name__, "%s: %r" % (name, exc2))
        elif gap_ok:
            for v in ["train"] + sizes:
                Xv = X if v == "train" else news[v]
                A = np.asarray(est.transform(Xv), float)
                B = np.asarray(e2.transform(feed(Xv)), float)
                if not _same_gram(A, T_N, B, np.asarray(e2.transform(feed(X)), float), tolT * tolT * 1e7):
                    r.fail("differs-from-%s-projection" % name, "held-out size %s: max diff %.3g" % (v, np.abs(np.abs(A) - np.abs(B)).max()))
                    break
                pa = np.asarray(est.predict(Xv), float).reshape(len(Xv), -1)
                pb = np.asarray(e2.predict(feed(Xv)), float).reshape(len(Xv), -1)
                if np.abs(pa - pb).max() > 1e-5 * ny:
                    r.fail("differs-from-%s-prediction" % name, "held-out size %s: max diff %.3g" % (v, np.abs(pa - pb).max()))
                    break
            diff_oracles += 1

    # ---- (4) mixing = 1 on a centred kernel == KernelPCA / sqrt(scale)
    if mixing == 1.0 and center and gap_ok and reg == "none":
        from sklearn.decomposition import KernelPCA

        params = {kk: vv for kk, vv in kp.items() if kk != "kernel"}
        kpca = KernelPCA(n_components=k, kernel=kp["kernel"], eigen_solver="dense", **params).fit(X)
        scale = _center_blocks(K_NN_raw, K_NN_raw, K_NN_raw)[3]
        for v in ["train"] + sizes:
            Xv = X if v == "train" else news[v]
            A = np.asarray(est.transform(Xv), float) * np.sqrt(scale)
            B = kpca.transform(Xv)
            if not _same_gram(A, T_N * np.sqrt(scale), B, kpca.transform(X), 1e-5 * max(np.abs(K_NN_raw).max(), 1e-300)):
                r.fail("mixing-1-differs-from-KernelPCA", "held-out size %s: max diff %.3g" % (v, np.abs(np.abs(A) - np.abs(B)).max()))
                break
        r.transitions += 1
        diff_oracles += 1
    r.nontrivial = held_out_judged and diff_oracles > 0
    r.count("differential_oracles", diff_oracles)
    r.outcome = [round(float(x), 6) for x in lam[:k]]
    return r


def _dual_weights(est, reg, K, Yfit, W):
    """Dual regression weights of the regressor spec, computed independently (kernel ridge
    closed form); used only for the reference modified Gram matrix of the gap rule."""
    if reg in ("pre+W", "pre-inconsistent"):
        return W
    if reg == "pre-W":
        return np.linalg.lstsq(K, Yfit, rcond=1e-12)[0]
    alpha = 1.0 if reg == "none" else 1e-3
    return np.linalg.solve(K + alpha * np.eye(K.shape[0]), Yfit)
