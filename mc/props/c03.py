"""C03 — PCovR's latent space does not depend on the computational route.

E1 over (centred data, Y with 1..3 targets, mixing, n_components, regressor) with a complete
inner walk over the routes space in {feature, sample} x svd_solver in {full, arpack,
randomized}. Oracle: an independently built modified Gram matrix K~ (regression weights from
an SVD of X, no sklearn): T T^T must equal the rank-k spectral truncation of K~ (sign-free
invariant, gap rule), predictions must equal P_k Y and the reconstruction P_k X with P_k the
spectral projector, and singular_values_^2 / explained_variance_*(n-1) must be the top-k
eigenvalues of K~ in decreasing order (the same from the covariance and the Gram route)."""

import numpy as np

from .. import pcov
from ..core import R

ID = "C03"
DESIGN_REF = "DESIGN.md §4 C03"
EXPLORER = "E1 product-space with complete inner walk over the 6 computational routes"
RULE = (
    "cases = (centred X from ternary lattices 4x2/3x3/2x4, generic tall/wide/square with decaying spectrum, planted "
    "low rank) x Y (1..3 targets) x mixing in {0,1/4,1/2,3/4,1} x every k in 1..min(n,m) x regressor in {default Ridge, "
    "Ridge(1e-3), LinearRegression(no intercept), precomputed Yhat with W, precomputed Yhat without W}; every case runs "
    "all routes (feature/sample x full/arpack/randomized; arpack only for k < min(n,m)); non-trivial = at least 4 routes "
    "judged against the reference and k < rank; states = fitted routes judged, transitions = fits"
)
ASSUMPTIONS = [
    "judged only when the retained spectrum of K~ is separated (relative gap > 1e-6) or every non-zero eigenvalue is retained; retained eigenvalues in (1e-13 absolute, 1e-9 relative) are unjudgeable",
    "closeness 1e-7 * cond(X)^2-bounded scale: |a-b| <= 1e-6 * lambda_1 (T T^T, spectra) or 1e-6 * ||Y||, ||X|| (predictions, reconstruction); cond(X) on its non-zero spectrum <= 1e3 by construction",
    "all explored matrices are small enough that the randomized sketch spans them; spectral-decay behaviour at scale is outside the bound (thorough: one 501x3 case takes the auto -> randomized switch)",
]
DEGRADED = set()
MIXINGS = [0.0, 0.25, 0.5, 0.75, 1.0]
ROUTES = [(sp, so) for sp in ("feature", "sample") for so in ("full", "arpack", "randomized")]


def bounds(tier, seed):
    ds = pcov.pcovr_datas(tier, seed)
    return dict(
        data={l: sum(1 for a, _, _ in ds if a == l) for l in sorted({l for l, _, _ in ds})},
        mixing=MIXINGS,
        regressors=pcov.REGRESSORS,
        routes=["%s/%s" % r for r in ROUTES],
        k="1..min(n,m)",
        big_case="501x3 auto-solver case" if tier == "thorough" else None,
        seed=seed,
    )


def groups(tier, seed):
    out = [dict(label=l, X=X, Ys=Ys) for l, X, Ys in pcov.pcovr_datas(tier, seed)]
    # steeply decaying spectrum with a floor, 20 x 14 (singular values 1, .3, .09, .03, .03, ...): with k <= 3
    # the randomized sketch (k + 10 columns) spans neither the covariance (14 x 14) nor the Gram matrix
    # (20 x 20), and the third retained eigenvalue is below 1% of the first
    for j in range(1 if tier == "quick" else 4):
        rng = np.random.default_rng([seed, 2014, j])
        A = rng.standard_normal((20, 14))
        Q, _ = np.linalg.qr(A - A.mean(axis=0))
        V, _ = np.linalg.qr(rng.standard_normal((14, 14)))
        sv = np.array([1.0, 0.3, 0.09] + [0.03] * 11)
        Xd = (Q * sv) @ V.T
        Xd = Xd - Xd.mean(axis=0)
        Yd = np.round(rng.standard_normal((20, 2)) * 64) / 64 * 0.05
        Yd = Yd - Yd.mean(axis=0)
        out.append(dict(label="decay20x14", X=Xd.tolist(), Ys=[Yd.tolist()]))
    if tier == "thorough":
        rng = np.random.default_rng([seed, 501])
        X = np.round(rng.standard_normal((501, 3)) * (0.5 ** np.arange(3)) * 256) / 256
        X = X - X.mean(axis=0)
        Y = np.round(rng.standard_normal((501, 1)) * 256) / 256
        Y = Y - Y.mean(axis=0)
        out.append(dict(label="big501x3", X=X.tolist(), Ys=[Y.tolist()]))
    return out


def cases(group):
    X = group["X"]
    kmax = min(len(X), len(X[0]))
    if group["label"].startswith("decay"):
        kmax = 3
    for Y in group["Ys"]:
        for mixing in MIXINGS:
            for k in range(1, kmax + 1):
                for spec in pcov.REGRESSORS:
                    yield dict(X=X, Y=Y, mixing=mixing, k=k, reg=spec, big=group["label"].startswith("big"))
                    if group["label"].startswith("I") and spec in ("default", "linreg"):
                        yield dict(X=X, Y=Y, mixing=mixing, k=k, reg=spec, big=False, int_dtype=True)
                    if group["label"][0] in "GI" and mixing in (0.0, 0.5) and spec in ("default", "linreg"):
                        # integer-valued targets (counts, labels) handed over with an integer dtype
                        yield dict(X=X, Y=Y, mixing=mixing, k=k, reg=spec, big=False, y_int=True)
                    if group["label"].startswith("G") and mixing == 0.5:
                        # every route again on a USED estimator (fitted before on other data of the same shape)
                        yield dict(X=X, Y=Y, mixing=mixing, k=k, reg=spec, big=False, prefit=True)


def check(case):
    r = R()
    X = np.array(case["X"], float)
    Y = np.array(case["Y"], float)
    mixing, k, spec = case["mixing"], case["k"], case["reg"]
    if case.get("y_int"):
        Y = np.round(Y * 2.0)
    ref = pcov.Ref(X, Y, mixing, spec)
    if ref.condX > 2e3:
        return r.skip("X ill conditioned on its non-zero spectrum")
    if not ref.judgeable(k):
        return r.skip("retained spectrum not separated (gap rule)")
    n = X.shape[0]
    lam1 = ref.lam1
    tolK = 1e-6 * lam1 + 1e-12
    Kk, Pk = ref.Kk(k), ref.Pk(k)
    kept = ref.kept(k)
    want_pred = Pk @ ref.Yfit
    want_rec = Pk @ X
    ny = max(1.0 if float(np.abs(X).max()) >= 0.5 else 0.0, float(np.abs(ref.Yfit).max()))
    nx = max(1.0 if float(np.abs(X).max()) >= 0.5 else 0.0, float(np.abs(X).max()))
    routes = ROUTES if not case.get("big") else [("auto", "auto"), ("feature", "full"), ("sample", "full")]
    judged = 0
    r.states = 0
    r.transitions = 0
    for space, solver in routes:
        if solver == "arpack" and k >= min(X.shape):
            continue
        est, exc = pcov.fit_pcovr(X, Y, mixing, k, spec, space, solver, prefit=bool(case.get("prefit")), int_dtype=bool(case.get("int_dtype")), y_int=bool(case.get("y_int")))
        r.transitions += 1
        tag = "%s/%s" % (space, solver)
        if exc is not None:
            r.fail("crash:%s" % type(exc).__name__, "%s: %r" % (tag, exc))
            continue
        try:
            T = np.asarray(est.transform(X), float)
            pred = np.asarray(est.predict(X), float).reshape(n, -1)
            rec = np.asarray(est.inverse_transform(T), float)
            sv = np.asarray(est.singular_values_, float)
            ev = np.asarray(est.explained_variance_, float)
        except Exception as e:
            r.fail("crash:%s" % type(e).__name__, "%s: %r" % (tag, e))
            continue
        r.states += 1
        if T.shape != (n, k):
            r.fail("latent-shape", "%s: %s" % (tag, T.shape))
            continue
        d = np.abs(T @ T.T - Kk).max()
        if d > tolK:
            r.fail("latent-gram-differs-from-spectral-truncation", "%s: max |T T^T - K~_k| = %.3g (lambda_1 = %.3g)" % (tag, d, lam1))
        d = np.abs(pred - want_pred).max()
        if d > 1e-6 * ny * max(1.0, ref.condX):
            r.fail("predictions-differ-from-projected-targets", "%s: max diff %.3g" % (tag, d))
        d = np.abs(rec - want_rec).max()
        if d > 1e-6 * nx * max(1.0, ref.condX):
            r.fail("reconstruction-differs-from-projected-X", "%s: max diff %.3g" % (tag, d))
        lam_k = ref.lam[:k].clip(min=0)
        if sv.shape != (k,) or np.abs(sv ** 2 - lam_k).max() > tolK:
            r.fail("singular-values-not-top-eigenvalues", "%s: singular_values_^2 %s, eig(K~) %s" % (tag, (sv ** 2).tolist(), lam_k.tolist()))
        if ev.shape != (k,) or np.abs(ev * (n - 1) - lam_k).max() > tolK:
            r.fail("explained-variance-not-top-eigenvalues", "%s: %s vs %s" % (tag, (ev * (n - 1)).tolist(), lam_k.tolist()))
        if k > 1 and np.any(np.diff(sv) > 1e-7 * np.sqrt(lam1)):
            r.fail("singular-values-not-decreasing", "%s: %s" % (tag, sv.tolist()))
        judged += 1
    r.nontrivial = judged >= 4 and len(kept) == k and k < ref.rankX + 1
    r.outcome = [round(float(x), 6) for x in ref.lam[:k]]
    return r
