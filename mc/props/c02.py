"""C02 — FPS and PCov-FPS pick a farthest candidate each step and report true distances.

E1 over (kind, direction, data, y, mixing, initialisation, n_to_select); inside each fit a
harness-side wrapper on `_update_post_selection` snapshots the distance table after EVERY
selection step, so the invariant is judged in every intermediate state of the greedy run.
Reference model: brute-force all-pairs squared distances (Euclidean, or induced by an
independently built PCovR covariance / Gram matrix), running minima recomputed from scratch,
tie-aware acceptance of the pick (refinement of the nondeterministic model)."""

import functools
import itertools

import numpy as np

from .. import fam, sel
from ..core import R

ID = "C02"
DESIGN_REF = "DESIGN.md §4 C02"
EXPLORER = "E1 product-space, per-step state snapshots"
RULE = (
    "cases = every (kind in {FPS,PCovFPS}) x direction x data matrix of the listed lattice/generic/"
    "clustered families x y catalogue x mixing x every initial index / ordered index list / 'random' "
    "x every n_to_select, in lexicographic order; a case is non-trivial when at least one greedy "
    "(non-initial) selection step was taken; distinct = sha1 of the canonical JSON of the case; "
    "states = post-step states judged, transitions = selection steps"
)
ASSUMPTIONS = [
    "inputs are bounded to the listed small shapes; round-off accumulation over long selections is outside the bound",
    "closeness: |a-b| <= 1e-9 * (largest squared norm entering the distance); ties within that tolerance make several picks admissible",
    "PCov-FPS feature direction: inputs whose X^T X has eigenvalues within (1e-14, 1e-10) of the absolute 1e-12 rank cut are unjudgeable (skipped, counted)",
    "re-selection of an already selected item once every candidate has distance 0 is left to C01 (known finding D2)",
]
DEGRADED = set()

MIXINGS = [0.0, 0.25, 0.5, 0.75, 0.99]


def bounds(tier, seed):
    return dict(
        kinds=sel.FPS_KINDS,
        directions=sel.DIRS,
        lattices=_lattice_specs(tier),
        lattice_strides="quick: none; thorough: ternary 3x3 every 9th, 12-entry binary lattices every 4th (PCov-FPS: every 3rd of those)",
        generic_shapes=_generic_shapes(tier),
        generic_per_shape=_generic_count(tier),
        mixings=MIXINGS,
        initialisations="every int, every ordered list of distinct indices of length 2 (and 3 for N<=4), 'random'",
        n_to_select="every integer from len(init) (min 1) to N",
        seed=seed,
    )


def _lattice_specs(tier):
    specs = [(2, 2, [0, 1, 2]), (2, 3, [0, 1, 2]), (3, 2, [0, 1, 2]), (3, 3, [0, 1])]
    if tier == "thorough":
        specs += [(3, 3, [0, 1, 2]), (3, 4, [0, 1]), (4, 3, [0, 1]), (5, 2, [0, 1]), (2, 5, [0, 1]), (4, 2, [-1, 0, 1])]
    else:
        specs += [(4, 3, [0, 1]), (3, 4, [0, 1]), (5, 2, [0, 1])]
    return specs


def _generic_shapes(tier):
    s = [(3, 2), (2, 3), (4, 3), (3, 5), (5, 5), (6, 4), (9, 6)]
    if tier == "thorough":
        s += [(4, 4), (7, 3), (3, 7), (8, 8)]
    return s


def _generic_count(tier):
    return 6 if tier == "quick" else 60


def _y_catalogue(n, tier):
    if n <= 2 and tier == "thorough":
        return [list(v) for v in itertools.product([0, 1, 2], repeat=n)]
    base = [[float((i * 7 + 3) % 5 - 2) for i in range(n)], [float(i % 2) for i in range(n)], [float(i * i) - 1.5 for i in range(n)]]
    if n <= 3 and tier == "thorough":
        base += [[0.0] * n, [1.0] * n, [2.0, 0.0, 1.0][:n]]
    return base


def groups(tier, seed):
    """One group per (kind, direction, data matrix)."""
    datas = []
    for (n, m, V) in _lattice_specs(tier):
        stride = 1
        if tier == "thorough" and n * m >= 9:
            stride = 9 if len(V) == 3 and n * m == 9 else (4 if n * m >= 12 else 1)
        for i, X in enumerate(fam.lattice(n, m, V)):
            if i % stride == 0:
                datas.append(("L%dx%d" % (n, m), X))
    for (n, m) in _generic_shapes(tier):
        for X in fam.generic_list(n, m, seed, _generic_count(tier)):
            datas.append(("G%dx%d" % (n, m), X))
    for d, per in ((2, 2), (3, 1)) if tier == "quick" else ((2, 2), (2, 3), (3, 1), (3, 2)):
        datas.append(("clustered%d" % d, fam.clustered(d, per, seed)))
    # the same geometry at very small / large scale (an absolute tolerance in the code shows here)
    for sc, tag in ((1e-7, "tiny"), (1e5, "huge")):
        datas.append(("clustered2-%s" % tag, (np.array(fam.clustered(2, 3, seed)) * sc).tolist()))
        datas.append(("G6x4-%s" % tag, (np.array(fam.generic_list(6, 4, seed, 1)[0]) * sc).tolist()))
    # duplicated rows
    datas.append(("dup", [[0.5, 1.0, 2.0], [0.5, 1.0, 2.0], [3.0, -1.0, 0.0], [3.0, -1.0, 0.0], [1.0, 1.0, 1.0]]))
    out = []
    for kind in sel.FPS_KINDS:
        for direction in sel.DIRS:
            for label, X in datas:
                if kind == "PCovFPS" and label.startswith("L") and tier == "quick" and len(X) * len(X[0]) > 9:
                    continue  # big lattices x (y, mixing) only in the thorough tier
                if kind == "PCovFPS" and tier == "thorough" and label.startswith("L") and len(X) * len(X[0]) >= 9 and (len(out) % 3):
                    continue  # thorough: PCov-FPS walks every 3rd of the (strided) large lattices
                if kind == "PCovFPS" and (label.endswith("tiny") or label.endswith("huge")):
                    continue  # the PCov distance has a documented absolute rank cut: scale is not free there
                out.append(dict(kind=kind, dir=direction, label=label, X=X, tier=tier))
    return out


def _inits(N, big):
    out = list(range(N))
    out.append("random")
    if not big:
        out += [list(p) for p in itertools.permutations(range(N), 2)]
        if N <= 4:
            out += [list(p) for p in itertools.permutations(range(N), 3)]
    else:
        out += [[N - 1, 0], [1, 2, 0][: min(3, N)]]
    return out


def cases(group):
    for c in _cases(group):
        yield c
        if not group["label"].startswith("L") and c["n"] >= 2 and (c["init"] == 0 or c["init"] == "random"):
            c2 = dict(c)
            c2["prefit"] = True  # the same fit on a USED selector (fitted before on other data of the same shape)
            yield c2
            if c["n"] >= 3:
                c3 = dict(c)
                # the same selection reached in two legs (cold to n//2, warm start to n) with an unrelated
                # selector of the same class fitted on other same-shape data in between
                c3["split"] = c["n"] // 2
                yield c3


def _cases(group):
    X = group["X"]
    kind, direction = group["kind"], group["dir"]
    N = sel.n_items(X, direction)
    big = N > 5 or (N >= 4 and group["label"].startswith("L") and (group["tier"] == "quick" or kind == "PCovFPS"))
    if kind == "FPS":
        for init in _inits(N, big):
            n0 = len(init) if isinstance(init, list) else 1
            ns = range(n0, N + 1) if not big else sorted({n0, max(n0, N // 2), N})
            for n in ns:
                yield dict(kind=kind, dir=direction, X=X, y=None, mixing=None, init=init, n=n)
    else:
        ys = _y_catalogue(len(X), group["tier"])
        inits = list(range(N)) + ["random"] if not big else [0, N - 1, "random"]
        mixes = MIXINGS if not (group["tier"] == "quick" and group["label"].startswith("L")) else [0.0, 0.5, 0.99]
        for y in ys:
            for mixing in mixes:
                for init in inits:
                    ns = range(1, N + 1) if not big else sorted({1, N // 2, N})
                    for n in ns:
                        yield dict(kind=kind, dir=direction, X=X, y=y, mixing=mixing, init=init, n=n)


@functools.lru_cache(maxsize=256)
def _refD(kind, direction, Xt, yt, mixing):
    X = np.array(Xt, float)
    y = None if yt is None else np.array(yt, float)
    return sel.distance_matrix(kind, direction, X, y, mixing)


def _tup(a):
    if a is None:
        return None
    if isinstance(a[0], (list, tuple)):
        return tuple(tuple(r) for r in a)
    return tuple(a)


def _snapshot(s):
    return np.array(s.hausdorff_, dtype=float, copy=True)


def check(case):
    r = R()
    kind, direction = case["kind"], case["dir"]
    X = np.array(case["X"], float)
    y = None if case["y"] is None else np.array(case["y"], float)
    init, n = case["init"], case["n"]
    N = sel.n_items(X, direction)
    D, scale, ok = _refD(kind, direction, _tup(case["X"]), _tup(case["y"]), case["mixing"])
    if not ok:
        return r.skip("rank of X^T X not decidable at the implementation's absolute cut")
    tol = 1e-9 * scale + 1e-300

    params = dict(initialize=init, n_to_select=n)
    if kind == "PCovFPS":
        params["mixing"] = case["mixing"]
    s = sel.make(kind, direction, **params)
    if case.get("prefit"):
        Xo = X[::-1, ::-1].copy() * 0.75 + 0.125 * np.abs(X).max()
        yo = None if y is None else (y[::-1].copy() * -0.5 + 0.25)
        _, exc0 = sel.fit_quiet(s, Xo, yo)
        if exc0 is not None:
            return r.fail("crash:%s" % type(exc0).__name__, "first fit of the used selector: %r" % exc0)
        r.count("fits_on_used_selector")
        sel.query_all(s, Xo)  # the used selector was also queried
        # the caller refills the same array objects in place and passes them again
        Xo[...] = X
        X = Xo
        if yo is not None:
            yo[...] = y
            y = yo
    rec = sel.StepRecorder(s, _snapshot)
    if not rec.ok:
        DEGRADED.add("no per-step snapshots (_update_post_selection not wrappable)")
    if case.get("split"):
        s.n_to_select = max(int(case["split"]), len(init) if isinstance(init, list) else 1)
        _, exc = sel.fit_quiet(s, X, y)
        if exc is not None:
            return r.fail("crash:%s" % type(exc).__name__, "first leg: %r" % exc)
        sibling = sel.sibling_fit(kind, direction, X, y, params)  # noqa: F841 (kept alive)
        s.n_to_select = n
        _, exc = sel.fit_quiet(s, X, y, warm_start=True)
        r.count("two_leg_fits_with_sibling_between")
    else:
        _, exc = sel.fit_quiet(s, X, y)
    if exc is not None:  # every configuration of this alphabet is admissible
        return r.fail("crash:%s" % type(exc).__name__, repr(exc))

    try:
        s.get_support(indices=True)  # a read-only accessor, called first on purpose
        s.get_support()
    except Exception as e:
        return r.fail("get_support-crash:%s" % type(e).__name__, repr(e))
    idx = [int(i) for i in np.asarray(s.selected_idx_)]
    if len(idx) != n:
        return r.skip("selection shorter than requested (C01's domain)")
    if any(i < 0 or i >= N for i in idx):
        return r.fail("index-out-of-range", idx)

    # --- initial picks
    if isinstance(init, list):
        n_init = len(init)
        if idx[:n_init] != init:
            r.fail("initial-picks-differ", "requested %s got %s" % (init, idx[:n_init]))
    elif init == "random":
        n_init = 1
        s2 = sel.make(kind, direction, **params)
        _, exc2 = sel.fit_quiet(s2, X, y)
        if exc2 is not None or int(s2.selected_idx_[0]) != idx[0]:
            r.fail("random-init-not-reproducible", "%s vs %s" % (idx[0], getattr(s2, "selected_idx_", None)))
    else:
        n_init = 1
        if idx[0] != init:
            r.fail("initial-picks-differ", "requested %s got %s" % (init, idx[0]))

    # --- walk the selection against the reference model
    h = np.full(N, np.inf)
    true_at_select = []
    first_tie = None
    steps = rec.steps if rec.ok else []
    if rec.ok and len(steps) != n:
        r.fail("step-count", "%d recorded steps for %d selections" % (len(steps), n))
        steps = []
    for t, pick in enumerate(idx):
        if t >= n_init:
            best = h.max()
            if not (h[pick] >= best - tol):
                r.fail(
                    "not-farthest",
                    "step %d picked %d with min-dist %.6g, farthest candidate has %.6g" % (t, pick, h[pick], best),
                )
            if first_tie is None and int((h >= best - tol).sum()) > 1:
                first_tie = t
        true_at_select.append(h[pick])
        h = np.minimum(h, D[:, pick])
        if steps:
            p2, table = steps[t]
            if p2 != pick:
                r.fail("step-pick-mismatch", "step %d recorded pick %d, selected_idx_ has %d" % (t, p2, pick))
            if table is not None:
                if table.shape != h.shape or not np.all(np.abs(table - h) <= tol):
                    r.fail(
                        "table-wrong-after-step",
                        "step %d table %s reference %s" % (t, np.round(table, 9).tolist(), np.round(h, 9).tolist()),
                    )
    r.states = n
    r.transitions = n
    r.nontrivial = n > n_init
    if first_tie is not None:
        r.count("cases_with_tie")

    # --- exposed tables after the fit
    try:
        table = np.asarray(s.get_distance(), float)
        if table.shape != h.shape or not np.all(np.abs(table - h) <= tol):
            r.fail("final-table-wrong", "get_distance %s reference %s" % (np.round(table, 9).tolist(), np.round(h, 9).tolist()))
    except Exception as e:
        r.fail("get_distance-crash:%s" % type(e).__name__, repr(e))
    try:
        sd = np.asarray(s.get_select_distance(), float)
        ref = np.array(true_at_select, float)
        if sd.shape != ref.shape:
            r.fail("select-distance-shape", "%s vs %s" % (sd.shape, ref.shape))
        else:
            # duplicates in idx (exhausted candidates) make the per-index table ambiguous
            if len(set(idx)) == len(idx):
                fin = np.isfinite(ref)
                if not (np.array_equal(np.isinf(sd), np.isinf(ref)) and np.all(np.abs(sd[fin] - ref[fin]) <= tol)):
                    r.fail("select-distance-wrong", "reported %s true %s" % (np.round(sd, 9).tolist(), np.round(ref, 9).tolist()))
                g = sd[n_init:]
                if g.size > 1 and np.any(g[1:] > g[:-1] + tol):
                    r.fail("select-distance-increases", np.round(sd, 9).tolist())
            else:
                r.count("duplicate_picks_left_to_C01")
    except Exception as e:
        r.fail("get_select_distance-crash:%s" % type(e).__name__, repr(e))

    # --- duality: sample FPS on X  ==  feature FPS on X^T (up to the first tie)
    if kind == "FPS" and direction == "sample":
        s3 = sel.make("FPS", "feature", **params)
        _, exc3 = sel.fit_quiet(s3, X.T.copy(), None)
        if exc3 is not None:
            r.fail("duality-crash:%s" % type(exc3).__name__, repr(exc3))
        else:
            idx3 = [int(i) for i in np.asarray(s3.selected_idx_)]
            upto = n if first_tie is None else first_tie
            if idx3[:upto] != idx[:upto]:
                r.fail("duality-broken", "sample(X) %s feature(X^T) %s first tie at %s" % (idx, idx3, first_tie))
            r.transitions += n
    r.outcome = idx
    return r
