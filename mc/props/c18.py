"""C18 — OrthogonalRegression yields an orthogonal map that is Procrustes-optimal.

E1 over (X, y from lattices and generic matrices with n_features <, =, > n_targets) x mode in
{projector, padded} x linear estimator in {default, LinearRegression(no intercept), Ridge} and
over PLANTED maps: every element of the hyperoctahedral group B_d (a complete finite family of
orthogonal matrices) plus a Givens menu, restricted to rows / columns for rectangular cases.
Competitors: the fitted map composed with EVERY element of B_r and small Givens rotations.
Oracle: padded mode: coef_ orthogonal; projector mode: partial isometry whose initial / final
spaces are the row / column spaces of an independently computed linear fit (singular values in
{0,1}); row-wise ||prediction|| <= ||input||; training residual equals the closed-form
Procrustes optimum ||A||^2 + ||B||^2 - 2||A^T B||_* and no competitor is smaller; planted
orthogonal maps are recovered with vanishing residual."""

import itertools

import numpy as np

from .. import fam
from ..core import R

ID = "C18"
DESIGN_REF = "DESIGN.md §4 C18"
EXPLORER = "E1 product-space incl. complete finite groups as planted maps and competitors"
RULE = (
    "general cases = (X, y) x mode x estimator; planted cases = (X, Q) with Q every element of B_d (d <= 3 quick, 4 thorough) "
    "or its rectangular restriction + Givens menu, x mode x estimator; every case evaluates the competitor catalogue "
    "(fitted map x every element of B_r, r <= 3, x small Givens rotations); non-trivial = general case with at least 8 "
    "competitors evaluated, or planted case with a non-identity map; states = fitted maps judged + competitors evaluated"
)
ASSUMPTIONS = [
    "projector mode is judged when the independently computed linear coefficients have full rank min(n_features, n_targets) with relative gap > 1e-6 (the reduced spaces are then well defined)",
    "recovery of a planted map is demanded where it is mathematically guaranteed: projector mode with an exact least-squares estimator for every shape relation, padded mode for n_features <= n_targets (with more features than targets the zero-padded target cannot be an orthogonal image of X in general)",
    "closeness 1e-7 relative to ||X||^2 + ||y||^2 (residuals) and 1e-8 (orthogonality)",
]
DEGRADED = set()
SHAPES = [(3, 3), (2, 4), (5, 2), (4, 3), (2, 2), (3, 1), (1, 3), (1, 1)]
ESTS = ["default", "linreg-noint", "ridge", "linreg-noint-prefitted"]


def bounds(tier, seed):
    return dict(
        shapes_features_targets=SHAPES,
        n_samples=[6, 8],
        modes=["projector", "padded"],
        estimators=ESTS,
        planted="all of B_d for d = min/max dims <= 3 (quick) / 4 (thorough) + Givens menu",
        competitors="fitted map x all of B_r (r <= 3) x Givens(+-1e-3, +-1e-1) in every plane",
        seed=seed,
    )


def _XY(dx, dy, n, seed, j, lattice):
    if lattice:
        X = np.array([[float(((i + 1) * (a + 2) + j * (a + 1) + i * i) % 5) - 2.0 for a in range(dx)] for i in range(n)])
        Y = np.array([[float(((i + 2) * (b + 3) + j + i * b) % 4) - 1.5 for b in range(dy)] for i in range(n)])
    else:
        X = np.array(fam.generic(n, dx, seed, j, "plain") or fam.generic(n, dx, seed, j + 100, "plain"), float)
        Y = np.array(fam.generic_vec(n, seed, j, dy), float)
    return X, Y


def groups(tier, seed):
    out = []
    for (dx, dy) in SHAPES:
        for n in (6, 8):
            for j in range(2 if tier == "quick" else 10):
                for lattice in (True, False):
                    X, Y = _XY(dx, dy, n, seed, j, lattice)
                    if np.linalg.matrix_rank(X) < dx:
                        continue
                    out.append(dict(kind="general", X=X.tolist(), Y=Y.tolist()))
                    if lattice:
                        # the same integer-valued X handed over with an integer dtype; and data with large offsets
                        out.append(dict(kind="general", X=X.tolist(), Y=Y.tolist(), int_dtype=True))
                        out.append(dict(kind="general", X=(X + 7.0).tolist(), Y=(Y * 0.5 - 11.0).tolist()))
            out.append(dict(kind="planted", X=_XY(dx, dy, n, seed, 0, False)[0].tolist(), dx=dx, dy=dy, tier=tier))
    return out


def _planted_maps(dx, dy, tier):
    dmax = max(dx, dy)
    maps = []
    if dmax <= (3 if tier == "quick" else 4):
        maps = list(fam.signed_permutations(dmax))
    else:
        maps = [q for i, q in enumerate(fam.signed_permutations(dmax)) if i % (97 if tier == "quick" else 7) == 0]
    maps += list(fam.givens_menu(dmax))
    # compose one Givens rotation with a signed permutation for genuinely dense maps
    if dmax >= 2:
        g = np.array(next(iter(fam.givens_menu(dmax))))
        maps += [(g @ np.array(q)).tolist() for i, q in enumerate(fam.signed_permutations(dmax)) if i % 5 == 1][:10]
    out = []
    for Q in maps:
        Q = np.array(Q, float)
        out.append(Q[:dx, :dy].tolist() if dx <= dy else Q[:dx, :dy].tolist())
    return out


def cases(group):
    if group["kind"] == "general":
        for mode in ("projector", "padded"):
            for est in ESTS:
                if mode == "padded" and est != "default":
                    continue  # the padded mode does not use the linear estimator
                yield dict(kind="general", X=group["X"], Y=group["Y"], mode=mode, est=est, int_dtype=bool(group.get("int_dtype")))
                if not group.get("int_dtype") and est in ("default", "linreg-noint"):
                    # the same fit on a USED estimator whose caller reuses (refills in place) its arrays
                    yield dict(kind="general", X=group["X"], Y=group["Y"], mode=mode, est=est, int_dtype=False, used=True)
                    for u in (2.0 ** -13, 2.0 ** 17):
                        yield dict(kind="general", X=group["X"], Y=group["Y"], mode=mode, est=est, int_dtype=False, unit=u)
    else:
        dx, dy = group["dx"], group["dy"]
        dmax = max(dx, dy)
        for Q in _planted_maps(dx, dy, group["tier"]):
            Qa = np.array(Q)
            # semi-orthogonal restriction only
            ok = np.allclose(Qa @ Qa.T, np.eye(dx), atol=1e-9) if dx <= dy else np.allclose(Qa.T @ Qa, np.eye(dy), atol=1e-9)
            if not ok:
                continue
            for mode in ("projector", "padded"):
                for est in (ESTS if mode == "projector" else ["default"]):
                    yield dict(kind="planted", X=group["X"], Q=Q, mode=mode, est=est)
                    if est == "default":
                        yield dict(kind="planted", X=group["X"], Q=Q, mode=mode, est=est, used=True)
                    if est in ("default", "linreg-noint"):
                        for u in (2.0 ** -13, 2.0 ** 17):
                            yield dict(kind="planted", X=group["X"], Q=Q, mode=mode, est=est, unit=u)


def _estimator(spec, X=None, Y=None):
    from sklearn.linear_model import LinearRegression, Ridge

    if spec == "default":
        return None
    if spec == "linreg-noint":
        return LinearRegression(fit_intercept=False)
    if spec == "linreg-noint-prefitted":
        # the user's estimator object was used before, on other data of the same shape
        return LinearRegression(fit_intercept=False).fit(X[::-1, ::-1] * 0.5 + 0.25, Y[::-1, ::-1] * -0.75 + 0.5)
    return Ridge(alpha=1e-2, fit_intercept=False)


def _ref_coef(spec, X, Y):
    """Independent linear coefficients (n_features x n_targets)."""
    if spec == "default":
        Xc, Yc = X - X.mean(0), Y - Y.mean(0)
        return np.linalg.lstsq(Xc, Yc, rcond=None)[0]
    if spec in ("linreg-noint", "linreg-noint-prefitted"):
        return np.linalg.lstsq(X, Y, rcond=None)[0]
    return np.linalg.solve(X.T @ X + 1e-2 * np.eye(X.shape[1]), X.T @ Y)


def _procrustes_optimum(A, B):
    return float((A ** 2).sum() + (B ** 2).sum() - 2.0 * np.linalg.svd(A.T @ B, compute_uv=False).sum())


def _competitor_rotations(r):
    out = []
    if r <= 3:
        out += [np.array(q) for q in fam.signed_permutations(r)]
    else:
        out += [np.array(q) for i, q in enumerate(fam.signed_permutations(r)) if i % 8 == 0]
    for i in range(r):
        for j in range(i + 1, r):
            for th in (1e-3, -1e-3, 1e-1, -1e-1):
                out.append(fam.givens(r, i, j, th))
    return out


def check(case):
    import warnings

    from skmatter.linear_model import OrthogonalRegression

    r = R()
    X = np.array(case["X"], float)
    if case["kind"] == "planted":
        Q = np.array(case["Q"], float)
        Y = X @ Q
    else:
        Y = np.array(case["Y"], float)
    if case.get("unit"):  # the same problem in small / large units (an exact power of two on both sides)
        X = X * case["unit"]
        Y = Y * case["unit"]
    n, dx = X.shape
    dy = Y.shape[1]
    mode, spec = case["mode"], case["est"]
    model = OrthogonalRegression(use_orthogonal_projector=(mode == "projector"), linear_estimator=_estimator(spec, X, Y))
    with warnings.catch_warnings():
        warnings.simplefilter("ignore")
        try:
            # another instance was fitted (and used) just before, on data with the same number of samples and
            # the same padded size whose NARROWER side has one more real column: nothing of it may leak
            px, py = (dx + 1, dy) if dx + 1 < dy else ((dx, dy + 1) if dy + 1 < dx else (dx, dy))
            pol = OrthogonalRegression(use_orthogonal_projector=(mode == "projector"))
            Xp0 = np.cos(np.arange(n * px, dtype=float).reshape(n, px) * 0.7) * 3.0 + 1.0
            Yp0 = np.sin(np.arange(n * py, dtype=float).reshape(n, py) * 1.3) * 2.0 - 0.5
            pol.fit(Xp0, Yp0)
            pol.predict(Xp0)
            Xin = X.astype(np.int64) if case.get("int_dtype") else X
            if case.get("used"):
                bX = np.ascontiguousarray(np.cos(np.arange(n * dx, dtype=float).reshape(n, dx) * 1.1) * 2.0 - 0.5)
                bY = np.ascontiguousarray(np.sin(np.arange(n * dy, dtype=float).reshape(n, dy) * 0.9) * 3.0 + 1.0)
                model.fit(bX, bY)
                model.predict(bX)
                bX[...] = X
                bY[...] = Y
                model.fit(bX, bY)
            else:
                model.fit(Xin.copy(), Y.copy())
            pred = np.asarray(model.predict(Xin.copy()), float)
            W = np.asarray(model.coef_, float).T  # the map Omega: prediction = X_(padded) @ W
        except Exception as e:
            return r.fail("crash:%s" % type(e).__name__, repr(e))
    r.states = 1
    r.transitions = 1
    scale = float((X ** 2).sum() + (Y ** 2).sum())
    tolr = 1e-7 * scale + 1e-12 * min(1.0, scale)
    ncomp = 0
    if mode == "padded":
        dm = max(dx, dy)
        if W.shape != (dm, dm) or getattr(model, "max_components_", None) != dm:
            return r.fail("padded-shape", "coef_ %s, max_components_ %s" % (W.shape, getattr(model, "max_components_", None)))
        if np.abs(W.T @ W - np.eye(dm)).max() > 1e-8:
            r.fail("coef-not-orthogonal", "max |W^T W - I| = %.3g" % np.abs(W.T @ W - np.eye(dm)).max())
        Xp = np.pad(X, [(0, 0), (0, dm - dx)])
        Yp = np.pad(Y, [(0, 0), (0, dm - dy)])
        if pred.shape != (n, dm) or np.abs(pred - Xp @ W).max() > 1e-9 * max(1.0, np.abs(pred).max()):
            r.fail("predict-not-padded-X-times-coef", "shape %s" % (pred.shape,))
        res = float(((Yp - Xp @ W) ** 2).sum())
        opt = _procrustes_optimum(Xp, Yp)
        if abs(res - opt) > tolr:
            r.fail("residual-not-procrustes-optimum", "residual %.10g, closed-form optimum %.10g" % (res, opt))
        for G in _competitor_rotations(dm if dm <= 3 else 3):
            if G.shape[0] != dm:
                G2 = np.eye(dm)
                G2[: G.shape[0], : G.shape[0]] = G
                G = G2
            rc = float(((Yp - Xp @ (W @ G)) ** 2).sum())
            ncomp += 1
            if rc < res - tolr:
                r.fail("competitor-has-smaller-residual", "residual %.10g < %.10g" % (rc, res))
                break
        pn, xn = np.linalg.norm(pred, axis=1), np.linalg.norm(X, axis=1)
        if (pn > xn * (1 + 1e-9) + 1e-12 * min(1.0, float(np.abs(X).max()))).any():
            r.fail("prediction-norm-exceeds-input-norm", "")
        if case["kind"] == "planted" and dx <= dy:
            if res > tolr:
                r.fail("planted-map-residual-not-zero", "residual %.6g" % res)
            if np.abs(W[:dx, :dy] - Q).max() > 1e-6:
                r.fail("planted-map-not-recovered", "max diff %.3g" % np.abs(W[:dx, :dy] - Q).max())
    else:
        if W.shape != (dx, dy):
            return r.fail("projector-shape", "coef_.T %s" % (W.shape,))
        if pred.shape != (n, dy) or np.abs(pred - X @ W).max() > 1e-9 * max(1.0, np.abs(pred).max()):
            r.fail("predict-not-X-times-coef", "shape %s" % (pred.shape,))
        sv = np.linalg.svd(W, compute_uv=False)
        if np.minimum(np.abs(sv), np.abs(sv - 1)).max() > 1e-8:
            r.fail("singular-values-not-0-or-1", "%s" % sv.tolist())
        pn, xn = np.linalg.norm(pred, axis=1), np.linalg.norm(X, axis=1)
        if (pn > xn * (1 + 1e-9) + 1e-12 * min(1.0, float(np.abs(X).max()))).any():
            r.fail("prediction-norm-exceeds-input-norm", "")
        C = _ref_coef(spec, X, Y)
        U, s, Vt = np.linalg.svd(C, full_matrices=False)
        rr = min(dx, dy)
        full = s.size == rr and s[-1] > 1e-6 * max(s[0], 1e-300)
        if case["kind"] == "planted":
            full = full and True
        if full:
            PU, PV = U @ U.T, Vt.T @ Vt
            if np.abs(W @ W.T - PU).max() > 1e-6 or np.abs(W.T @ W - PV).max() > 1e-6:
                r.fail("not-a-partial-isometry-on-the-linear-fit-range", "max dev %.3g" % max(np.abs(W @ W.T - PU).max(), np.abs(W.T @ W - PV).max()))
            else:
                A, B = X @ U, Y @ Vt.T
                res = float(((B - A @ (U.T @ W @ Vt.T)) ** 2).sum())
                opt = _procrustes_optimum(A, B)
                if abs(res - opt) > tolr:
                    r.fail("residual-not-procrustes-optimum", "reduced residual %.10g, closed-form optimum %.10g" % (res, opt))
                Rf = U.T @ W @ Vt.T
                full_res = float(((Y - X @ W) ** 2).sum())
                for G in _competitor_rotations(rr if rr <= 3 else 3):
                    if G.shape[0] != rr:
                        G2 = np.eye(rr)
                        G2[: G.shape[0], : G.shape[0]] = G
                        G = G2
                    Wc = U @ (Rf @ G) @ Vt
                    rc = float(((Y - X @ Wc) ** 2).sum())
                    ncomp += 1
                    if rc < full_res - tolr:
                        r.fail("competitor-has-smaller-residual", "residual %.10g < %.10g" % (rc, full_res))
                        break
        else:
            r.count("projector_reduced_spaces_unjudgeable")
        if case["kind"] == "planted" and spec != "ridge":  # exact least squares only: ridge shrinks the reduced spaces
            res = float(((Y - X @ W) ** 2).sum())
            if res > tolr:
                r.fail("planted-map-residual-not-zero", "residual %.6g (estimator %s)" % (res, spec))
            elif np.abs(W - Q).max() > 1e-6:
                r.fail("planted-map-not-recovered", "max diff %.3g" % np.abs(W - Q).max())
    r.states += ncomp
    r.count("competitors", ncomp)
    if case["kind"] == "general":
        r.nontrivial = ncomp >= 8
    else:
        Qa = np.array(case["Q"])
        r.nontrivial = not np.allclose(Qa, np.eye(*Qa.shape))
    r.outcome = [mode, spec, np.round(W, 6).tolist()]
    return r
