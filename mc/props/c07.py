"""C07 — CUR and PCov-CUR select by leverage score on the orthogonalised residual.

E1 over (kind, direction, data, y, k, mixing, recompute_every, tolerance, n_to_select) with
per-step refinement: the score vector the greedy loop looked at is read through a wrapper on
the public score(); in the state "prefix selected" the reference model (dense SVD / eigh on an
independently computed projection residual and least-squares residual of y, as of the most
recent refresh) allows every unselected item whose reference score is within tolerance of the
maximum; the implementation's pick must be one of them and the model follows it. After the
fit the exposed residual must equal the projection and be orthogonal to every selected item.
Duality (sample CUR on X == feature CUR on X^T) and PCov-CUR(mixing=1) == CUR are checked up
to the first tie."""

import numpy as np

from .. import fam, sel
from ..core import R

ID = "C07"
DESIGN_REF = "DESIGN.md §4 C07"
EXPLORER = "E1 product-space with per-step refinement against a nondeterministic reference model"
RULE = (
    "cases = {CUR, PCovCUR} x {sample, feature} x data (binary 3x3, slices of ternary 3x3 / binary 3x4, 4x3, generic "
    "up to 8x6; one 1100-item set per kind and direction) x y catalogue x k in {1,2,3} (k < min shape) x mixing in {0,1/4,1/2,3/4,1} x recompute_every in {0,1,2,3} "
    "x tolerance in {1e-12,1e-6,0 (generic data)} x n in {rank-1, rank}; non-trivial = at least two greedy steps were judged against "
    "the reference score; states = judged post-step states, transitions = selection steps"
)
ASSUMPTIONS = [
    "a step is judged only if the retained spectrum at the most recent refresh is separated: relative gap > 1e-4 (else the score is not well defined); such steps are counted as skipped_steps",
    "closeness of scores 1e-6 (absolute; scores lie in [0, k]); candidates within 1e-6 of the maximum are admissible picks",
    "residual checks require the selected items to be well conditioned (cond < 1e4); tolerance 1e-9*cond^2 relative to the data scale",
    "tolerance=1e-6: steps at which a singular value of the selected block falls within two decades of the cut are not judged",
]
DEGRADED = set()
GAPC = 1e-4
TOL = 1e-6
MIXINGS = [0.0, 0.25, 0.5, 0.75, 1.0]


def _datas(tier, seed):
    out = [("L3x3b", X) for X in fam.lattice(3, 3, [0, 1])]
    step = 27 if tier == "quick" else 6
    out += [("L3x3t", X) for i, X in enumerate(fam.lattice(3, 3, [0, 1, 2])) if i % step == 1]
    step = 16 if tier == "quick" else 4
    out += [("L3x4", X) for i, X in enumerate(fam.lattice(3, 4, [0, 1])) if i % step == 1]
    out += [("L4x3", X) for i, X in enumerate(fam.lattice(4, 3, [0, 1])) if i % step == 1]
    for shp in [(4, 4), (5, 3), (3, 5), (6, 4), (4, 6), (8, 6)]:
        for X in fam.generic_list(shp[0], shp[1], seed, 4 if tier == "quick" else 40):
            out.append(("G%dx%d" % shp, X))
    # the same generic data in very small / large units (exact powers of two): the scores are scale free
    g = np.array(fam.generic_list(6, 4, seed, 1)[0], float)
    out.append(("G6x4-unit2^-17", (g * 2.0 ** -17).tolist()))
    out.append(("G6x4-unit2^14", (g * 2.0 ** 14).tolist()))
    # exact copies: a dominant column copied (stale scores of a refresh interval > 1 pick the copy), and
    # repeated rows (the same x measured again; with conflicting targets PCov-CUR picks the copy)
    for j, shp in enumerate([(8, 6), (7, 5)] if tier == "quick" else [(8, 6), (7, 5), (9, 6), (8, 7)]):
        X = np.array(fam.generic_list(shp[0], shp[1], seed + 11, 1)[0], float)
        Xc = X.copy()
        Xc[:, 2] *= 4.0
        Xc[:, shp[1] - 1] = Xc[:, 2]
        out.append(("Gcopycol%dx%d" % shp, Xc.tolist()))
        Xr = X.copy()
        Xr[0:2] *= 3.0
        Xr[shp[0] - 2:] = Xr[0:2]
        out.append(("Gcopyrow%dx%d" % shp, Xr.tolist()))
    return out


def bounds(tier, seed):
    ds = _datas(tier, seed)
    return dict(
        kinds=sel.CUR_KINDS,
        directions=sel.DIRS,
        data={l: sum(1 for a, _ in ds if a == l) for l in sorted({l for l, _ in ds})},
        k=[1, 2, 3],
        mixing=MIXINGS,
        recompute_every=[0, 1, 2, 3],
        tolerance=[1e-12, 1e-6, 0.0],
        n_to_select="rank-1 and rank",
        gap_rule=GAPC,
        seed=seed,
    )


def _big(spec):
    """Many items along the selection axis (a blocked / chunked update shows only there): n x m, decaying column scales."""
    n, m, sd = spec
    rng = np.random.default_rng([int(sd), n, m, 777])
    return np.round(rng.standard_normal((n, m)) * (0.6 ** np.arange(m)) * 256) / 256


def groups(tier, seed):
    out = []
    for kind in sel.CUR_KINDS:
        for d in sel.DIRS:
            for spec in ([[1100, 5, seed]] if tier == "quick" else [[1100, 5, seed], [2100, 4, seed], [1030, 6, seed + 1]]):
                out.append(dict(kind=kind, dir=d, label="big%dx%d" % (spec[0], spec[1]), big=spec, tier=tier))
    for kind in sel.CUR_KINDS:
        for d in sel.DIRS:
            for label, X in _datas(tier, seed):
                if np.linalg.matrix_rank(np.array(X, float)) < 2:
                    continue
                out.append(dict(kind=kind, dir=d, label=label, X=X, tier=tier))
    return out


def _ys(n, tier):
    ys = [[float((i * 7 + 3) % 5 - 2) for i in range(n)], [float(i * i) - 1.5 + 0.25 * (i % 2) for i in range(n)]]
    return ys if tier == "thorough" else ys[:1] + ys[1:]


def cases(group):
    if "big" in group:
        n, m, _ = group["big"]
        y = [float((i * 7 + 3) % 5 - 2) + 0.125 * (i % 3) for i in range(n if group["dir"] == "sample" else m)]
        for k in (1, 2):
            for re in (1, 2):
                yield dict(kind=group["kind"], dir=group["dir"], big=group["big"], y=y if group["kind"] == "PCovCUR" else None, k=k,
                           mixing=0.5 if group["kind"] == "PCovCUR" else None, re=re, tolerance=1e-12, n=4)
        return
    kind, d, X, tier = group["kind"], group["dir"], group["X"], group["tier"]
    Xa = np.array(X, float)
    rank = int(np.linalg.matrix_rank(Xa))
    N = sel.n_items(X, d)
    ns = sorted({max(1, rank - 1), min(rank, N)})
    ys = _ys(len(X), tier) if kind == "PCovCUR" else [None]
    if kind == "PCovCUR" and "copyrow" in group["label"]:
        # the repeated rows carry conflicting targets
        y0 = np.array(_ys(len(X), tier)[0], float)
        y0[-2:] = y0[:2] + np.array([9.0, -8.0])
        ys = [y0.tolist()]
    mixes = MIXINGS if kind == "PCovCUR" else [None]
    lite = tier == "quick" and not group["label"].startswith("G")
    if lite and kind == "PCovCUR":
        mixes = [0.0, 0.5, 1.0]
        ys = ys[:1]
    for y in ys:
        for k in (1, 2, 3):
            if k >= min(Xa.shape):
                continue
            for mixing in mixes:
                for re in (0, 1, 2, 3):
                    # tolerance=0 ("never treat anything as zero") only on generic data, where no selected block is rank deficient
                    for tolerance in ((1e-12,) if lite else ((1e-12, 1e-6, 0.0) if group["label"].startswith("G") and "copy" not in group["label"] else (1e-12, 1e-6))):
                        for n in ns:
                            yield dict(kind=kind, dir=d, X=X, y=y, k=k, mixing=mixing, re=re, tolerance=tolerance, n=n)
                            if kind == "PCovCUR" and tolerance == 1e-12 and n == ns[-1] and not lite and all(float(v).is_integer() for v in y):
                                # the same targets passed as an integer-typed array (labels / counts)
                                yield dict(kind=kind, dir=d, X=X, y=y, k=k, mixing=mixing, re=re, tolerance=tolerance, n=n, y_int=True)
                            if group["label"].startswith("G") and tolerance == 1e-12 and n == ns[-1]:
                                # the same fit on a USED selector (fitted before, with another count, on other data of the same shape)
                                yield dict(kind=kind, dir=d, X=X, y=y, k=k, mixing=mixing, re=re, tolerance=tolerance, n=n, prefit=True)


def _fit(kind, d, X, y, k, mixing, re, tolerance, n, record=True, prefit=False):
    p = dict(k=k, recompute_every=re, tolerance=tolerance, n_to_select=n)
    if kind == "PCovCUR":
        p["mixing"] = mixing
    s = sel.make(kind, d, **p)
    if prefit:
        Xo = X[::-1, ::-1].copy() * 0.75 + 0.125 * np.abs(X).max()
        yo = None if y is None else (y[::-1].copy() * -0.5 + 0.25)
        s.n_to_select = max(1, n - 1) if re % 2 else n  # another count / the same count (same buffer shapes)
        _, exc0 = sel.fit_quiet(s, Xo, yo)
        sel.query_all(s, Xo)
        s.n_to_select = n
        if exc0 is not None:
            return s, None, exc0
        Xo[...] = X  # the caller refills the same array objects in place and passes them again
        X = Xo
        if yo is not None and yo.dtype == np.asarray(y).dtype:
            yo[...] = y
            y = yo
    rec = sel.ScoreRecorder(s) if record else None
    _, exc = sel.fit_quiet(s, X, y)
    return s, rec, exc


def _grey(X, idx, d, tolerance):
    """tolerance=1e-6 style cuts: is a singular value of the selected block near the cut?"""
    if tolerance <= 1e-10 or not idx:
        return False
    B = X[:, idx] if d == "feature" else X[idx]
    sv = np.linalg.svd(B, compute_uv=False)
    if sv.size == 0 or sv[0] == 0:
        return True
    rel2 = (sv / sv[0]) ** 2
    rel1 = sv / sv[0]
    near = lambda v: ((v > tolerance / 100) & (v < tolerance * 100)).any()  # noqa: E731
    return bool(near(rel2) or near(rel1) or near(sv) or near(sv ** 2))


def check(case):
    r = R()
    kind, d = case["kind"], case["dir"]
    if "big" in case:
        X = _big(case["big"]) if d == "sample" else _big(case["big"]).T.copy()
    else:
        X = np.array(case["X"], float)
    y = None if case["y"] is None else np.array(case["y"], float)
    k, mixing, re, tolerance, n = case["k"], case["mixing"], case["re"], case["tolerance"], case["n"]
    N = sel.n_items(X, d)
    y_fit = y.astype(np.int64) if case.get("y_int") else y
    s, rec, exc = _fit(kind, d, X, y_fit, k, mixing, re, tolerance, n, prefit=bool(case.get("prefit")))
    if exc is not None:
        return r.fail("crash:%s" % type(exc).__name__, repr(exc))
    idx = [int(i) for i in s.selected_idx_]
    if len(idx) != n:
        return r.skip("selection shorter than requested (C01's domain)")
    if len(set(idx)) != n:
        # an already selected item was picked again: a violation here iff, as of the most recent refresh, an
        # unselected item has a positive (well-defined) score; otherwise it is C01's exhausted-candidates finding
        t = next(i for i in range(n) if idx[i] in idx[:i])
        last_refresh = 0 if re == 0 else (t // re) * re
        ref0 = sel.cur_reference(kind, d, X, y, idx[:last_refresh], k, mixing, gap=GAPC)
        if ref0["gap_ok"]:
            uns = [i for i in range(N) if i not in idx[:t]]
            if uns and max(ref0["pi"][i] for i in uns) > 1e-6:
                return r.fail("picked-an-already-selected-item", "step %d re-selected item %d although unselected items still score up to %.6g (selection %s)" % (t, idx[t], max(ref0["pi"][i] for i in uns), idx))
        return r.skip("selection with repeats once no unselected item scores (C01's domain)")
    if not rec.ok:
        DEGRADED.add("score() not wrappable: only picks are judged")
    scores = rec.scores if rec.ok else [None] * n
    if rec.ok and len(scores) != n:
        return r.fail("score-call-count", "%d score() calls for %d selections" % (len(scores), n))

    # ---- per-step refinement
    ref = sel.cur_reference(kind, d, X, y, [], k, mixing, gap=GAPC)  # initial refresh
    judged = 0
    skipped_steps = 0
    first_unjudged = None
    for t, pick in enumerate(idx):
        prefix = idx[:t]
        judge = ref["gap_ok"] and not _grey(X, prefix, d, tolerance)
        if judge:
            pi = ref["pi"].copy()
            uns = [i for i in range(N) if i not in prefix]
            best = max(pi[i] for i in uns)
            if not (pi[pick] >= best - TOL):
                r.fail(
                    "pick-not-maximal",
                    "step %d picked %d with reference score %.8g; best unselected candidate has %.8g (prefix %s)" % (t, pick, pi[pick], best, prefix),
                )
                break
            if first_unjudged is None and sum(1 for i in uns if pi[i] >= best - TOL) > 1:
                first_unjudged = t
            if scores[t] is not None:
                v = np.asarray(scores[t], float)
                if v.shape != pi.shape:
                    r.fail("score-shape", "%s vs %s" % (v.shape, pi.shape))
                    break
                dv = max(abs(v[i] - pi[i]) for i in uns)
                if dv > TOL:
                    r.fail("score-differs-from-reference", "step %d: score() %s, reference %s (prefix %s)" % (t, np.round(v, 7).tolist(), np.round(pi, 7).tolist(), prefix))
                    break
            judged += 1
        else:
            skipped_steps += 1
            if first_unjudged is None:
                first_unjudged = t
        # refresh schedule: after this selection n_selected = t+1
        if re != 0 and (t + 1) % re == 0:
            ref = sel.cur_reference(kind, d, X, y, idx[: t + 1], k, mixing, gap=GAPC)
    r.states = max(judged, 1)
    r.transitions = n
    r.count("judged_steps", judged)
    r.count("skipped_steps", skipped_steps)
    r.nontrivial = judged >= 2

    # ---- exposed residual after the fit
    if re != 0 and not r.violations:
        B = X[:, idx] if d == "feature" else X[idx].T
        sv = np.linalg.svd(B, compute_uv=False)
        # conditioning on the NON-ZERO spectrum: dependent / duplicated selected items are legal
        rel = sv / sv[0] if sv[0] > 0 else sv
        nz = sv[rel > 1e-12]
        ambiguous = bool(((rel > 1e-12) & (rel < 1e-6)).any())
        cond = (nz[0] / nz[-1]) if nz.size else np.inf
        Xc = getattr(s, "X_current_", None)
        if Xc is None:
            r.fail("no-exposed-residual", "X_current_ missing")
        elif cond < 1e4 and not ambiguous and not _grey(X, idx, d, tolerance):
            Xc = np.asarray(Xc, float)
            want = sel.residual_after(X, idx, d)
            scale = float(np.abs(X).max()) or 1.0
            tolr = 1e-9 * cond ** 2 * scale + 1e-12
            if Xc.shape != want.shape or np.abs(Xc - want).max() > tolr:
                r.fail("residual-not-projection", "max |X_current_ - projection residual| = %.3g (tol %.3g)" % (np.abs(Xc - want).max() if Xc.shape == want.shape else np.inf, tolr))
            else:
                G = (X[:, idx].T @ Xc) if d == "feature" else (Xc @ X[idx].T)
                if np.abs(G).max() > tolr * max(1.0, float(np.abs(X).max())) * X.shape[0]:
                    r.fail("residual-not-orthogonal-to-selected", "max inner product %.3g" % np.abs(G).max())
            r.count("residual_checks")
        else:
            r.count("residual_unjudgeable")

    # ---- duality and the mixing=1 limit (selections, up to the first tie / unjudgeable step)
    upto = n if first_unjudged is None else first_unjudged
    if not r.violations and upto > 0:
        if kind == "CUR" and d == "sample":
            s2, _, exc2 = _fit("CUR", "feature", X.T.copy(), None, k, None, re, tolerance, n, record=False)
            if exc2 is not None:
                r.fail("duality-crash:%s" % type(exc2).__name__, repr(exc2))
            else:
                idx2 = [int(i) for i in s2.selected_idx_]
                if idx2[:upto] != idx[:upto]:
                    r.fail("duality-broken", "sample CUR on X %s, feature CUR on X^T %s (judged up to step %d)" % (idx, idx2, upto))
            r.transitions += n
        if kind == "PCovCUR" and mixing == 1.0:
            s3, _, exc3 = _fit("CUR", d, X, None, k, None, re, tolerance, n, record=False)
            if exc3 is not None:
                r.fail("cur-limit-crash:%s" % type(exc3).__name__, repr(exc3))
            else:
                idx3 = [int(i) for i in s3.selected_idx_]
                if len(set(idx3)) != len(idx3):
                    r.count("cur_limit_exhausted_left_to_C01")
                elif idx3[:upto] != idx[:upto]:
                    r.fail("mixing-1-differs-from-CUR", "PCovCUR(mixing=1) %s, CUR %s (judged up to step %d)" % (idx, idx3, upto))
            r.transitions += n
    r.outcome = idx
    return r
