"""C16 — QuickShift returns the basin partition of the density-ascent graph.

E1; the implementation's labels are judged against a RELATIONAL reference model, so exact
ties are admissible nondeterminism rather than noise. Point sets = EVERY subset of size 2..4
(thorough 5) of the 3x3 integer grid (many exact distance ties, collinear triples) and of its
perturbed, tie-free copy, 1-D and 3-D analogues; weights = ALL n! rankings; uniform cut-offs =
all classes (below / between / exactly at / above the sorted distinct squared distances);
per-point cut-offs = all of {tiny, huge}^n; gabriel_shell in {1,2,3}; scale; periodic cells;
input order = ALL n! permutations on the tie-free sets; increasing re-mappings of the weights.
Model: Next(i) = nearest strictly-higher-weight points within the cut-off, else the nearest
neighbour if it is denser (resp. nearest higher-weight member of the Gabriel shell); a point
may be a centre iff Next(i) may be empty, every other point must carry the label of some
member of Next(i); three-valued comparisons within 1e-9 keep ties admissible."""

import itertools

import numpy as np

from .. import fam
from ..core import R

ID = "C16"
DESIGN_REF = "DESIGN.md §4 C16"
EXPLORER = "E1 product-space against a relational (nondeterministic) reference model"
RULE = (
    "one case = (point set, mode, weight ranking); inside, every cut-off class (uniform: below / between / exactly at / above "
    "each distinct squared distance; per-point: all of {tiny,huge}^n) resp. every gabriel_shell in {1,2,3} is fitted, and on "
    "tie-free sets all n! input permutations, 3 weight re-mappings and whole-cell shifts are compared; non-trivial = at least "
    "one fit produced >= 2 clusters and one produced a non-root point; states = fits judged against the model"
)
ASSUMPTIONS = [
    "weights are pairwise distinct (all n! rankings), as the property states",
    "comparisons of squared distances (with each other, with a cut-off, in the Gabriel condition) within 1e-9 relative are three-valued: either outcome is admissible",
    "exception: for small-integer point sets in free space every squared distance is an exactly representable integer and the Gabriel condition (third point STRICTLY inside the ball) is decided exactly - a point on the sphere does not remove the edge",
    "progress bars are silenced harness-side by replacing the module-level tqdm with the identity",
    "the Gabriel graph is read by calling the module-level helper on the public metric's distance matrix; if the helper is renamed only the labels are judged",
]
DEGRADED = set()
EPS = 1e-9


def _silence():
    try:
        import skmatter.clustering._quick_shift as qm

        if getattr(qm.tqdm, "__name__", "") != "_quiet":
            def _quiet(it, *a, **k):
                return it
            qm.tqdm = _quiet
    except Exception:
        DEGRADED.add("tqdm could not be silenced")


def _families(tier):
    fams = []
    grid = fam.integer_grid(3, 2)
    pgrid = fam.perturbed_grid(3, 2)
    sizes = (2, 3, 4) if tier == "quick" else (2, 3, 4, 5)
    for k in sizes:
        for sub in itertools.combinations(range(9), k):
            fams.append(("grid2d", [grid[i] for i in sub], None))
            fams.append(("pert2d", [pgrid[i] for i in sub], None))
    line = [[float(i)] for i in range(6)]
    pline = [[p[0]] for p in fam.perturbed_grid(6, 1)]
    for k in (2, 3, 4):
        for sub in itertools.combinations(range(6), k):
            fams.append(("line1d", [line[i] for i in sub], None))
            fams.append(("pert1d", [pline[i] for i in sub], None))
    cube = fam.integer_grid(2, 3)
    pcube = fam.perturbed_grid(2, 3)
    for k in (3, 4):
        for j, sub in enumerate(itertools.combinations(range(8), k)):
            if tier == "quick" and j % 3:
                continue
            fams.append(("cube3d", [cube[i] for i in sub], None))
            fams.append(("pert3d", [pcube[i] for i in sub], None))
    # the perturbed 2-D sets in very small / large units (exact powers of two; cut-offs are derived from the distances)
    for k in (3, 4):
        for j, sub in enumerate(itertools.combinations(range(9), k)):
            if j % (9 if tier == "quick" else 3) == 1:
                fams.append(("pert2d-unit2^-14", [[c * 2.0 ** -14 for c in pgrid[i]] for i in sub], None))
                fams.append(("pert2d-unit2^12", [[c * 2.0 ** 12 for c in pgrid[i]] for i in sub], None))
    # periodic: 3x3 grid in a (3,3) cell, perturbed copy in a (3,3.5) cell
    for k in (3, 4):
        for j, sub in enumerate(itertools.combinations(range(9), k)):
            if j % (5 if tier == "quick" else 2):
                continue
            fams.append(("grid2d-pbc", [grid[i] for i in sub], [3.0, 3.0]))
            fams.append(("pert2d-pbc", [pgrid[i] for i in sub], [3.0, 3.5]))
    return fams


def bounds(tier, seed):
    fs = _families(tier)
    return dict(
        point_sets={l: sum(1 for a, _, _ in fs if a == l) for l in sorted({l for l, _, _ in fs})},
        weights="all n! rankings",
        uniform_cutoffs="below / between / exactly at / above every distinct squared distance",
        per_point_cutoffs="all of {tiny, huge}^n",
        gabriel_shell=[1, 2, 3],
        permutations="all n! input orders on tie-free sets",
        remaps=["2w+1", "exp(w)", "w^3"],
        cell_shifts="whole-cell shifts (+-1, +-2 per axis) of every second point (periodic sets)",
        seed=seed,
    )


def groups(tier, seed):
    return [dict(label=l, P=P, cell=c, tier=tier) for l, P, c in _families(tier)]


def count(group):
    """closed-form size of a group (independent of the generator): all n! rankings x 2 modes"""
    import math

    return 2 * math.factorial(len(group["P"]))

def cases(group):
    n = len(group["P"])
    for rank in itertools.permutations(range(n)):
        yield dict(label=group["label"], P=group["P"], cell=group["cell"], rank=list(rank), mode="cutoff", tier=group["tier"])
        yield dict(label=group["label"], P=group["P"], cell=group["cell"], rank=list(rank), mode="gabriel", tier=group["tier"])


# --------------------------------------------------------------------------------------
# reference model


def _sqdist(P, cell):
    P = np.asarray(P, float)
    diff = P[:, None, :] - P[None, :, :]
    if cell is not None:
        c = np.asarray(cell, float)
        a = np.mod(np.abs(diff), c)
        diff = np.minimum(a, c - a)
    return (diff * diff).sum(axis=2)


def _lt(a, b, scale):
    """Three-valued a < b: True / False / None (undecidable within tolerance)."""
    if abs(a - b) <= EPS * scale:
        return None
    return bool(a < b)


def _argmins(vals, idxs, scale):
    """Indices whose value may be the minimum (ties within tolerance)."""
    m = min(vals[j] for j in idxs)
    return [j for j in idxs if vals[j] <= m + EPS * scale]


def _admissible_cutoff(i, w, D, cut, scale):
    """Set of admissible outcomes for point i: indices and/or 'ROOT'."""
    n = len(w)
    H = [j for j in range(n) if w[j] > w[i]]
    sure = [j for j in H if _lt(D[i, j], cut[i], scale) is True]
    maybe = [j for j in H if _lt(D[i, j], cut[i], scale) is None]
    out = set()
    others = [j for j in range(n) if j != i]
    for r in range(len(maybe) + 1):
        for sub in itertools.combinations(maybe, r):
            C = sure + list(sub)
            if C:
                out.update(_argmins(D[i], C, scale))
            else:
                for nn in _argmins(D[i], others, scale):
                    out.add(nn if w[nn] > w[i] else "ROOT")
    return out


def _gabriel_model(D, scale, exact=False):
    """(edges surely present, edges undecidable) by the brute-force definition. exact: the points are small
    integers in free space, every squared distance is an exactly representable integer, and "a third point
    strictly inside the ball" is decided exactly (a point ON the sphere does not block the edge)."""
    n = len(D)
    sure = np.zeros((n, n), bool)
    maybe = np.zeros((n, n), bool)
    for i in range(n):
        for j in range(i + 1, n):
            blocked = False
            unsure = False
            for k in range(n):
                if k in (i, j):
                    continue
                t = bool(D[i, k] + D[j, k] < D[i, j]) if exact else _lt(D[i, k] + D[j, k], D[i, j], scale)
                if t is True:
                    blocked = True
                elif t is None:
                    unsure = True
            if not blocked:
                if unsure:
                    maybe[i, j] = maybe[j, i] = True
                else:
                    sure[i, j] = sure[j, i] = True
    return sure, maybe


def _admissible_gabriel(i, w, D, G, shell, scale):
    n = len(w)
    neigh = G[i].copy()
    for _ in range(1, shell):
        nn = neigh.copy()
        for j in range(n):
            if neigh[j]:
                nn |= G[j]
        neigh = nn
    C = [j for j in range(n) if neigh[j] and w[j] > w[i]]
    if not C:
        return {"ROOT"}
    return set(_argmins(D[i], C, scale))


def _judge_labels(r, tag, labels, centers_idx, centers, P, w, adm):
    n = len(w)
    labels = [int(x) for x in labels]
    if len(labels) != n or any(l < 0 or l >= n for l in labels):
        r.fail("label-not-a-point-index", "%s: %s" % (tag, labels))
        return False
    roots = sorted({l for l in labels})
    for c in roots:
        if labels[c] != c:
            r.fail("centre-does-not-label-itself", "%s: labels %s" % (tag, labels))
            return False
    if sorted(int(x) for x in centers_idx) != sorted(i for i in range(n) if labels[i] == i):
        r.fail("cluster_centers_idx-inconsistent", "%s: %s vs labels %s" % (tag, list(centers_idx), labels))
        return False
    if not np.array_equal(np.asarray(centers), np.asarray(P)[[int(x) for x in centers_idx]]):
        r.fail("cluster_centers-not-the-centre-points", tag)
        return False
    top = int(np.argmax(w))
    if labels[top] != top:
        r.fail("highest-weight-point-not-a-centre", "%s: labels %s weights %s" % (tag, labels, list(w)))
        return False
    for i in range(n):
        a = adm(i)
        if labels[i] == i:
            if "ROOT" not in a:
                r.fail("centre-has-an-admissible-denser-neighbour", "%s: point %d is a centre but must move to one of %s (labels %s)" % (tag, i, sorted(x for x in a if x != "ROOT"), labels))
                return False
        else:
            nxt = [j for j in a if j != "ROOT"]
            if not any(labels[j] == labels[i] for j in nxt):
                r.fail("label-not-reached-by-density-ascent", "%s: point %d has label %d, admissible next points %s carry %s (labels %s)" % (tag, i, labels[i], nxt, [labels[j] for j in nxt], labels))
                return False
    return True


def _fit(P, w, cut=None, shell=None, cell=None, scale=1.0, used=False, late_cell=False):
    from skmatter.clustering import QuickShift

    kw = {}
    if cell is not None:
        kw["metric_params"] = {"cell_length": list(cell)}
    if cut is not None:
        m = QuickShift(dist_cutoff_sq=np.array(cut, float), scale=scale, **kw)
    else:
        m = QuickShift(gabriel_shell=shell, **kw)
    if cell is not None and late_cell:
        # the same estimator configured in another order of public steps: constructed first, cell supplied afterwards
        d0 = {"cell_length": None}
        m = QuickShift(dist_cutoff_sq=np.array(cut, float), scale=scale, metric_params=d0) if cut is not None else QuickShift(gabriel_shell=shell, metric_params=d0)
        d0["cell_length"] = list(cell)
        m.cell = list(cell)
    if used:  # a USED estimator: fitted before on the mirrored points with reversed weights
        m.fit(np.array(P, float)[::-1] * -1.0 + 0.5, samples_weight=np.array(w, float)[::-1].copy())
    m.fit(np.array(P, float), samples_weight=np.array(w, float))
    return m


def _partition(labels):
    groups = {}
    for i, l in enumerate(labels):
        groups.setdefault(int(l), []).append(i)
    return sorted(sorted(g) for g in groups.values())


def check(case):
    _silence()
    r = R()
    P = np.array(case["P"], float)
    n, d = P.shape
    cell = case["cell"]
    rank = case["rank"]
    w = np.array([float(rank[i]) * 1.5 - 2.0 for i in range(n)])
    D = _sqdist(P, cell)
    scale = float(D.max()) if D.max() > 0 else 1.0  # every tolerance is relative to the largest squared distance
    tie_free = case["label"].startswith("pert")
    r.states = 0
    r.transitions = 0
    n_multi = n_moved = 0

    def run(tag, adm, **kw):
        nonlocal n_multi, n_moved
        try:
            # every other ranking on a USED estimator; every third with the cell supplied after construction
            m = _fit(P, w, cell=cell, used=bool(rank[0] % 2), late_cell=bool(rank[-1] % 3 == 0), **kw)
        except Exception as e:
            r.fail("crash:%s" % type(e).__name__, "%s: %r" % (tag, e))
            return None
        r.transitions += 1
        ok = _judge_labels(r, tag, m.labels_, m.cluster_centers_idx_, m.cluster_centers_, P, w, adm)
        r.states += 1
        if not ok:
            return None
        labs = [int(x) for x in m.labels_]
        if len(set(labs)) >= 2:
            n_multi += 1
        if any(labs[i] != i for i in range(n)):
            n_moved += 1
        return labs

    if case["mode"] == "cutoff":
        dvals = sorted({float(D[i, j]) for i in range(n) for j in range(i + 1, n)})
        merged = []
        for v in dvals:
            if not merged or v - merged[-1] > EPS * scale:
                merged.append(v)
        classes = [merged[0] * 0.5] + [(a + b) / 2 for a, b in zip(merged[:-1], merged[1:])] + [merged[-1] * 2 + 1.0] + merged
        cut_menu = [[c] * n for c in classes]
        tiny, huge = merged[0] * 0.25, merged[-1] * 4 + 1.0
        if n <= 4:
            cut_menu += [list(c) for c in itertools.product([tiny, huge], repeat=n)]
        else:
            cut_menu += [[tiny if (i + s) % 2 else huge for i in range(n)] for s in (0, 1)]
        for ci, cut in enumerate(cut_menu):
            adm = lambda i, cut=cut: _admissible_cutoff(i, w, D, cut, scale)  # noqa: E731
            labs = run("cutoffs %s" % np.round(cut, 6).tolist(), adm, cut=cut)
            if labs is None:
                break
            if not tie_free or any(len(adm(i)) != 1 for i in range(n)):
                continue  # invariances are demanded where the model is deterministic
            if case.get("tier") == "quick" and (ci + rank[0]) % 4:
                continue  # quick tier: the invariance battery on every 4th (cut-off class, ranking) pair
            base = _partition(labs)
            # scale: QuickShift(c, scale=s) == QuickShift(c*s^2)
            l2 = run("scale=2 cutoffs/4", adm, cut=[c / 4.0 for c in cut], scale=2.0)
            if l2 is not None and _partition(l2) != base:
                r.fail("scale-not-equivalent-to-scaled-cutoffs", "cutoffs %s" % cut)
                break
            # every input order
            for perm in itertools.permutations(range(n)):
                if list(perm) == list(range(n)):
                    continue
                try:
                    mp = _fit(P[list(perm)], w[list(perm)], cut=[cut[p] for p in perm], cell=cell)
                except Exception as e:
                    r.fail("crash:%s" % type(e).__name__, "permutation %s: %r" % (perm, e))
                    break
                r.transitions += 1
                part = sorted(sorted(perm[i] for i in g) for g in _partition(mp.labels_))
                if part != base:
                    r.fail("partition-depends-on-input-order", "order %s gives %s, identity order gives %s (cutoffs %s)" % (list(perm), part, base, np.round(cut, 6).tolist()))
                    break
            if r.violations:
                break
            for name, f in (("affine", lambda x: 2 * x + 1), ("exp", np.exp), ("cube", lambda x: x ** 3)):
                try:
                    mr = _fit(P, f(w), cut=cut, cell=cell)
                except Exception as e:
                    r.fail("crash:%s" % type(e).__name__, "remap %s: %r" % (name, e))
                    break
                r.transitions += 1
                if _partition(mr.labels_) != base:
                    r.fail("partition-depends-on-weight-remapping", "%s: %s vs %s" % (name, _partition(mr.labels_), base))
                    break
            if cell is not None and not r.violations:
                c = np.asarray(cell, float)
                for s in (1, -1, 2, -2):
                    for ax in range(d):
                        Ps = P.copy()
                        Ps[::2, ax] += s * c[ax]
                        try:
                            ms = _fit(Ps, w, cut=cut, cell=cell)
                        except Exception as e:
                            r.fail("crash:%s" % type(e).__name__, "cell shift: %r" % e)
                            break
                        r.transitions += 1
                        if _partition(ms.labels_) != base:
                            r.fail("partition-depends-on-periodic-image", "shift %d cells along axis %d: %s vs %s" % (s, ax, _partition(ms.labels_), base))
                            break
            if r.violations:
                break
    else:
        exact = cell is None and case["label"] in ("grid2d", "line1d", "cube3d") and bool(np.all(P == np.round(P)))
        sure, maybe = _gabriel_model(D, scale, exact)
        if exact:
            r.count("gabriel_graphs_decided_exactly")
        # the Gabriel graph the implementation uses
        try:
            import skmatter.clustering._quick_shift as qm
            from skmatter.metrics import periodic_pairwise_euclidean_distances as ppd

            Dm = ppd(P, P, squared=True, cell_length=cell)
            np.fill_diagonal(Dm, np.inf)
            G = np.asarray(qm._get_gabriel_graph(Dm), bool)
            r.transitions += 1
            wrong = (sure & ~G) | (G & ~(sure | maybe))
            if wrong.any():
                i, j = np.argwhere(wrong)[0]
                r.fail("gabriel-graph-differs-from-brute-force-definition", "edge (%d,%d): implementation %s, definition %s" % (i, j, bool(G[i, j]), bool(sure[i, j])))
            r.states += 1
        except AttributeError:
            DEGRADED.add("_get_gabriel_graph not available: Gabriel graph not compared")
        if maybe.any():
            r.count("gabriel_undecidable_edges_cases")
        else:
            for shell in (1, 2, 3):
                adm = lambda i, shell=shell: _admissible_gabriel(i, w, D, sure, shell, scale)  # noqa: E731
                labs = run("gabriel_shell=%d" % shell, adm, shell=shell)
                if labs is None:
                    break
                if tie_free and n <= 4 and all(len(adm(i)) == 1 for i in range(n)):
                    base = _partition(labs)
                    for perm in itertools.permutations(range(n)):
                        mp = _fit(P[list(perm)], w[list(perm)], shell=shell, cell=cell)
                        r.transitions += 1
                        part = sorted(sorted(perm[i] for i in g) for g in _partition(mp.labels_))
                        if part != base:
                            r.fail("partition-depends-on-input-order", "gabriel_shell=%d order %s: %s vs %s" % (shell, list(perm), part, base))
                            break
                    if r.violations:
                        break
    r.nontrivial = n_multi > 0 and n_moved > 0
    r.outcome = [case["label"], case["mode"], n_multi, n_moved]
    return r
