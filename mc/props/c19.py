"""C19 — DirectionalConvexHull selects exactly the lower-hull vertices, signed distances.

E1: positions = EVERY subset of size d+2..6 of a perturbed lattice in d = 1, 2 hull dimensions;
targets = ALL assignments from {0,1,2}^n for which the joint points are in general position
(decided by determinants with a safety margin; the rest is counted as skipped); 0..3 extra
high-dimensional columns; every choice and order of low_dim_idx; added points strictly above /
below the hull; positive affine maps of y; queries = convex combinations of training positions
at offsets {+.5, +1e-3, 0, -1e-3, -.5} from the hull. Oracle (brute force): i is selected iff
y_i lies strictly below every convex combination of other samples at the same position (d = 1:
all brackets; d = 2: all containing triangles), extreme positions always; hull(x) = min over all
simplices containing x; distances = vertical offsets on or above the hull, negative below."""

import itertools

import numpy as np

from .. import fam
from ..core import R

ID = "C19"
DESIGN_REF = "DESIGN.md §4 C19"
EXPLORER = "E1 product-space against a brute-force lower-hull model"
RULE = (
    "one case = (hull dimension, position subset, target assignment in {0,1,2}^n); every case is fitted with the plain column "
    "layout; every 5th case additionally walks the layouts (0..3 high-dimensional columns x orders of low_dim_idx), the added "
    "points, the affine maps and the query offsets; non-trivial = at least one training sample is NOT selected (the hull is "
    "not the whole set) and at least 3 are; states = fits + query batches judged"
)
ASSUMPTIONS = [
    "general position: no d+2 joint points affinely dependent and no sample within 1e-6 of a facet spanned by others (otherwise skipped, counted)",
    "positions are perturbed lattice sites, so no three positions are collinear in 2-D and no two coincide in 1-D",
    "the magnitude of a negative distance (below the hull) is left open by the statement; only its sign is judged",
    "closeness 1e-8",
]
DEGRADED = set()
TOL = 1e-10
MARGIN = 1e-6


def _sites(d):
    if d == 1:
        return [[p[0]] for p in fam.perturbed_grid(7, 1)]
    return fam.perturbed_grid(3, 2)


def bounds(tier, seed):
    return dict(
        hull_dims=[1, 2],
        subset_sizes={1: [3, 4, 5, 6] + ([7] if tier == "thorough" else []), 2: [4, 5] + ([6] if tier == "thorough" else [])},
        targets="all of {0,1,2}^n in general position",
        layouts="0..3 extra high-dimensional columns, every order of low_dim_idx (every 5th case)",
        affine_maps=[[2.0, 1.0], [0.5, -3.0]],
        query_offsets=[0.5, 1e-3, 0.0, -1e-3, -0.5],
        seed=seed,
    )


def groups(tier, seed):
    out = []
    for d in (1, 2):
        sites = _sites(d)
        sizes = ([3, 4, 5, 6] + ([7] if tier == "thorough" else [])) if d == 1 else ([4, 5] + ([6] if tier == "thorough" else []))
        for k in sizes:
            for sub in itertools.combinations(range(len(sites)), k):
                out.append(dict(d=d, pos=[sites[i] for i in sub]))
    return out


def count(group):
    """closed-form size of a group (independent of the generator): all assignments of 3 values to n samples"""
    return 3 ** len(group["pos"])

def cases(group):
    n = len(group["pos"])
    for ci, y in enumerate(itertools.product([0.0, 1.0, 2.0], repeat=n)):
        yield dict(d=group["d"], pos=group["pos"], y=list(y), extended=(ci % 5 == 2))


# --------------------------------------------------------------------------------------
# brute-force model


def _general_position(pos, y, d):
    J = np.hstack([pos, y[:, None]])
    n = len(J)
    for sub in itertools.combinations(range(n), d + 2):
        M = J[list(sub)[1:]] - J[sub[0]]
        if abs(np.linalg.det(M)) < MARGIN:
            return False
    return True


def _hull_value(pos, y, x, exclude=None, d=1):
    """min over all simplices of the given points containing x of the interpolated target.
    Returns (value or None if x is outside the footprint, borderline flag)."""
    idx = [i for i in range(len(pos)) if i != exclude]
    best = None
    border = False
    if d == 1:
        for i in idx:
            if abs(pos[i][0] - x[0]) <= 1e-12:
                best = y[i] if best is None else min(best, y[i])
        for i, j in itertools.combinations(idx, 2):
            a, b = pos[i][0], pos[j][0]
            if a > b:
                a, b, i, j = b, a, j, i
            if a - 1e-12 <= x[0] <= b + 1e-12 and b > a:
                t = (x[0] - a) / (b - a)
                v = (1 - t) * y[i] + t * y[j]
                best = v if best is None else min(best, v)
        return best, border
    for i in idx:
        if np.abs(pos[i] - x).max() <= 1e-12:
            best = y[i] if best is None else min(best, y[i])
    for tri in itertools.combinations(idx, 3):
        A = np.array([pos[tri[1]] - pos[tri[0]], pos[tri[2]] - pos[tri[0]]]).T
        det = np.linalg.det(A)
        if abs(det) < 1e-9:
            continue
        lam = np.linalg.solve(A, x - pos[tri[0]])
        bary = np.array([1 - lam.sum(), lam[0], lam[1]])
        if bary.min() >= -1e-12:
            v = float(bary @ y[list(tri)])
            best = v if best is None else min(best, v)
        elif bary.min() > -1e-7:
            border = True
    return best, border


def _model(pos, y, d):
    """selected set and hull values at the training positions; None if not in general position."""
    n = len(pos)
    sel, hull = [], []
    for i in range(n):
        v, border = _hull_value(pos, y, pos[i], exclude=i, d=d)
        if border:
            return None
        if v is None:
            sel.append(i)  # extreme position
            hull.append(y[i])
        else:
            if abs(y[i] - v) < MARGIN:
                return None
            if y[i] < v:
                sel.append(i)
                hull.append(y[i])
            else:
                hull.append(v)
    return sel, np.array(hull)


def _fit(X, y, low, tolerance=None):
    from skmatter.sample_selection import DirectionalConvexHull

    m = DirectionalConvexHull(low_dim_idx=low) if tolerance is None else DirectionalConvexHull(low_dim_idx=low, tolerance=tolerance)
    m.fit(X, y)
    return m


def check(case):
    import warnings

    r = R()
    d = case["d"]
    pos = np.array(case["pos"], float)
    y = np.array(case["y"], float)
    n = len(pos)
    if not _general_position(pos, y, d):
        return r.skip("joint points not in general position")
    mod = _model(pos, y, d)
    if mod is None:
        return r.skip("a sample lies within the safety margin of a facet")
    sel, hull = mod
    r.states = 0
    r.transitions = 0

    def judge_fit(tag, X, yy, low, sel_want, hull_want, scale_y=1.0, used=False, tolerance=None):
        with warnings.catch_warnings():
            warnings.simplefilter("ignore")
            try:
                if used:
                    from skmatter.sample_selection import DirectionalConvexHull

                    m = DirectionalConvexHull(low_dim_idx=low)
                    yo = (yy.max() - yy) * 1.5 + 0.25 * np.arange(len(yy))
                    # the caller keeps its arrays and refills them in place between the two fits
                    bX, by = np.ascontiguousarray(X[::-1], dtype=float).copy(), np.ascontiguousarray(yo, dtype=float).copy()
                    m.fit(bX, by)
                    m.score_samples(bX, by)
                    bX[...] = X
                    by[...] = yy
                    m.fit(bX, by)
                else:
                    m = _fit(X, yy, low, tolerance)
                dist = np.asarray(m.score_samples(X, yy), float)
                got = sorted(int(i) for i in m.selected_idx_)
            except Exception as e:
                r.fail("crash:%s" % type(e).__name__, "%s: %r" % (tag, e))
                return None
        r.transitions += 1
        r.states += 1
        if got != sorted(sel_want):
            r.fail("selection-differs-from-lower-hull-vertices", "%s: selected %s, lower-hull vertices %s (y=%s)" % (tag, got, sorted(sel_want), yy.tolist()))
            return None
        if dist.shape != (len(yy),):
            r.fail("distance-shape", "%s: %s" % (tag, dist.shape))
            return None
        if dist.min() < -TOL * scale_y * 10:
            r.fail("training-sample-below-hull", "%s: min distance %.3g" % (tag, dist.min()))
        want = yy - hull_want
        if np.abs(dist - want).max() > TOL * max(1.0, scale_y) * 10:
            r.fail("training-distance-not-vertical-offset", "%s: distances %s, offsets %s" % (tag, np.round(dist, 9).tolist(), np.round(want, 9).tolist()))
        for i in range(len(yy)):
            if i in sel_want and abs(dist[i]) > TOL * max(1.0, scale_y) * 10:
                r.fail("selected-sample-has-nonzero-distance", "%s: sample %d distance %.3g" % (tag, i, dist[i]))
                break
            if i not in sel_want and not dist[i] > 0:
                r.fail("unselected-sample-has-nonpositive-distance", "%s: sample %d distance %.3g" % (tag, i, dist[i]))
                break
        return m

    X0 = pos.copy() if d > 1 else pos.reshape(n, 1)
    if d == 1:
        # the estimator needs >= 1 feature; with only the hull column there is no high-dim part
        X0 = np.hstack([X0, np.zeros((n, 1))])
    m0 = judge_fit("plain", X0, y, list(range(d)), sel, hull)
    r.nontrivial = 3 <= len(sel) < n
    r.outcome = [d, sel]
    if m0 is None or r.violations or not case["extended"]:
        return r

    # ---- the same fit on a USED instance (fitted and scored before on other targets)
    judge_fit("used instance", X0, y, list(range(d)), sel, hull, used=True)
    if r.violations:
        return r
    # ---- layouts: extra high-dimensional columns, every order of low_dim_idx
    for n_high in (0, 1, 2, 3):
        H = np.array([[np.sin(1.7 * i + 0.9 * j) + 0.3 * j for j in range(n_high)] for i in range(n)], float).reshape(n, n_high)
        for order in itertools.permutations(range(d)):
            for place in ("front", "back"):
                cols_low = pos
                if place == "front":
                    X = np.hstack([cols_low, H]) if n_high else cols_low
                    low = [o for o in order]  # the hull columns listed in every order
                else:
                    X = np.hstack([H, cols_low]) if n_high else cols_low
                    low = [n_high + o for o in order]
                if X.shape[1] < 1 or (X.shape[1] == d and d == 1 and n_high == 0):
                    X = np.hstack([X, np.zeros((n, 1))])
                # low_dim_idx lists the hull columns in the order given
                m = judge_fit("layout high=%d order=%s %s" % (n_high, order, place), X, y, low, sel, hull)
                if m is None or r.violations:
                    return r
                if n_high:
                    with warnings.catch_warnings():
                        warnings.simplefilter("ignore")
                        try:
                            res = np.asarray(m.score_feature_matrix(X), float)
                        except Exception as e:
                            r.fail("crash:%s" % type(e).__name__, "score_feature_matrix: %r" % e)
                            return r
                    if res.shape != (n, n_high) or np.abs(res[sel]).max() > 1e-7:
                        r.fail("selected-sample-has-high-dimensional-residual", "layout high=%d: %s" % (n_high, np.round(res[sel], 9).tolist() if res.shape == (n, n_high) else res.shape))
                        return r
    # ---- a coarser (non-default) tolerance with steep targets: the hull itself must not change
    judge_fit("tolerance=1e-3, y -> 1000 y", X0, 1000.0 * y, list(range(d)), sel, 1000.0 * hull, scale_y=1e7, tolerance=1e-3)
    if r.violations:
        return r
    # ---- single-precision features (a legal input dtype): the targets keep their precision
    X32 = X0.astype(np.float32)
    pos32 = X32[:, :d].astype(float)
    y32 = 1000.0 * y + 0.123456789 * np.arange(1, n + 1)
    if _general_position(pos32, y32, d):
        mod32 = _model(pos32, y32, d)
        if mod32 is not None:
            judge_fit("float32 features", X32, y32, list(range(d)), mod32[0], mod32[1], scale_y=1000.0)
            if r.violations:
                return r
    # ---- positive affine maps of y: same selection, distances scale
    for a, b in ((2.0, 1.0), (0.5, -3.0)):
        judge_fit("affine y -> %g y + %g" % (a, b), X0, a * y + b, list(range(d)), sel, a * hull + b, scale_y=a)
        if r.violations:
            return r
    # ---- adding samples strictly above the hull leaves the selection unchanged
    extra_pos, extra_y = [], []
    for i in range(n):
        if i not in sel:
            continue
    cen = pos.mean(axis=0)
    hv, _ = _hull_value(pos, y, cen, d=d)
    if hv is not None:
        Xa = np.vstack([pos, cen[None, :]])
        ya = np.append(y, hv + 0.75)
        Xa2 = Xa if d > 1 else np.hstack([Xa.reshape(n + 1, 1), np.zeros((n + 1, 1))])
        hull_a = np.append(hull, hv)
        judge_fit("added point above the hull", Xa2, ya, list(range(d)), sel, hull_a)
        if r.violations:
            return r
        # a point strictly below becomes a vertex itself
        yb = np.append(y, hv - 0.75)
        modb = _model(Xa, yb, d) if _general_position(Xa, yb, d) else None
        if modb is not None:
            judge_fit("added point below the hull", Xa2, yb, list(range(d)), modb[0], modb[1])
            if r.violations:
                return r
    # ---- a result that was returned earlier must not change when the estimator is used again
    try:
        first = m0.score_samples(X0, y)
        keep = np.array(first, copy=True)
        m0.score_samples(X0, y - 0.75)
        m0.score_samples(X0, y + 0.5)
        if not np.array_equal(np.asarray(first), keep):
            r.fail("earlier-result-overwritten-by-a-later-call", "score_samples result changed from %s to %s" % (np.round(keep, 6).tolist(), np.round(np.asarray(first), 6).tolist()))
            return r
    except Exception as e:
        r.fail("crash:%s" % type(e).__name__, "repeated score_samples: %r" % e)
        return r
    # ---- a large batch (3000 queries; block-wise code paths): every query is judged like a single one
    base_q = []
    for comb in itertools.combinations(range(n), d + 1):
        wts = np.array([0.45, 0.35, 0.2][: d + 1])
        base_q.append((wts / wts.sum()) @ pos[list(comb)])
    base_q = np.array(base_q)
    hv_b = []
    okb = True
    for q in base_q:
        v, border = _hull_value(pos, y, q, d=d)
        if v is None or border:
            okb = False
            break
        hv_b.append(v)
    if okb:
        reps = int(np.ceil(3000 / len(base_q)))
        Qb = np.tile(base_q, (reps, 1))[:3000]
        Hb = np.tile(np.array(hv_b), reps)[:3000]
        offs = np.where(np.arange(3000) % 3 == 0, -0.4, 0.3)  # every third query below the hull
        Xb = Qb if d > 1 else np.hstack([Qb.reshape(-1, 1), np.zeros((3000, 1))])
        try:
            db = np.asarray(m0.score_samples(Xb, Hb + offs), float)
        except Exception as e:
            r.fail("crash:%s" % type(e).__name__, "large batch: %r" % e)
            return r
        r.states += 1
        above = offs > 0
        if (np.abs(db[above] - offs[above]) > 1e-7).any() or not (db[~above] < 0).all():
            r.fail("large-batch-distances-wrong", "%d of 3000 queries wrong" % int((np.abs(db[above] - offs[above]) > 1e-7).sum() + (~(db[~above] < 0)).sum()))
            return r
    # ---- queries inside the footprint
    qs = []
    for comb in itertools.combinations(range(n), d + 1):
        wts = np.array([0.5, 0.3, 0.2][: d + 1])
        wts = wts / wts.sum()
        qs.append(wts @ pos[list(comb)])
    qs = np.array(qs)
    for off in (0.5, 1e-3, 0.0, -1e-3, -0.5):
        hv = []
        ok = True
        for q in qs:
            v, border = _hull_value(pos, y, q, d=d)
            if v is None or border:
                ok = False
                break
            hv.append(v)
        if not ok:
            break
        hv = np.array(hv)
        yq = hv + off
        Xq = qs if d > 1 else np.hstack([qs.reshape(len(qs), 1), np.zeros((len(qs), 1))])
        with warnings.catch_warnings():
            warnings.simplefilter("ignore")
            try:
                dq = np.asarray(m0.score_samples(Xq, yq), float)
            except Exception as e:
                r.fail("crash:%s" % type(e).__name__, "queries: %r" % e)
                return r
        r.states += 1
        if off > 0 and (np.abs(dq - off) > 1e-7).any():
            r.fail("query-above-hull-distance-not-vertical-offset", "offset %g: %s" % (off, np.round(dq, 9).tolist()))
        elif off == 0.0 and (np.abs(dq) > 1e-7).any():
            r.fail("query-on-hull-distance-not-zero", "%s" % np.round(dq, 9).tolist())
        elif off < 0 and not (dq < 0).all():
            r.fail("query-below-hull-distance-not-negative", "offset %g: %s" % (off, np.round(dq, 9).tolist()))
        if r.violations:
            return r
    return r
