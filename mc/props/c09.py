"""C09 — calls never modify caller data or hyper-parameters; refits start from scratch.

E2 (explicit-state exploration of call histories, depth 2) over an ENTRY-POINT CATALOGUE: every
public estimator and function of skmatter (selectors in both directions, VoronoiFPS,
DirectionalConvexHull, PCovR, KernelPCovR, StandardFlexibleScaler, KernelNormalizer,
SparseKernelCenterer, Ridge2FoldCV, OrthogonalRegression, SparseKDE, QuickShift, the eight
reconstruction measures, LPR / CPR, both pairwise distances, the orthogonalizers with copy=True,
pcovr_covariance / pcovr_kernel, effdim / oas, train_test_split). Purity cases: the full cross
product of argument layouts {C order, Fortran order, read-only, strided view, integer dtype
where accepted}; oracle = byte-wise snapshots (+ flags) of every argument, a read-only argument
must not make the call fail, get_params() identical before / after fit, fit returns self,
fit_transform == fit().transform(), repeated call == first call. History cases: {A;A, A;B
larger->smaller, B;A smaller->larger, with-y;without-y, 1-D y;2-D y}; oracle = the refitted
estimator equals a fresh estimator fitted on the new data on every attribute AND on the set of
attributes."""

import itertools
import os
import warnings

import numpy as np

from .. import fam
from ..core import R

ID = "C09"
DESIGN_REF = "DESIGN.md §4 C09"
EXPLORER = "E2 depth-2 history exploration over an entry-point catalogue x argument layouts"
RULE = (
    "purity case = (entry point, one layout per array argument) - the full cross product of layouts per entry point; history "
    "case = (estimator entry, ordered pair of data variants); non-trivial = at least one argument in a non-default layout "
    "(purity) or two different data variants (history); states = estimator / call states compared, transitions = calls"
)
ASSUMPTIONS = [
    "arguments are compared byte-wise together with shape, dtype, strides and the writeable flag; the integer layout hands every data argument over as integer-valued int64 (values rounded to eighths and scaled)",
    "refit == fresh is compared with relative tolerance 1e-6 on every instance attribute that holds numbers, arrays, lists or nested estimators; opaque objects (closures, Qhull objects, interpolators) are compared by type only",
    "VoronoiFPS is run with an explicit switching point and, for the calibrated default, under three scripted clock outcomes (the 128 outcomes are C06's)",
    "documented in-place options (copy=False) are not exercised",
]
DEGRADED = set()
CASE_TIMEOUT = 120


# --------------------------------------------------------------------------------------
# data variants


def _gen(n, m, j, kind="plain"):
    X = fam.generic(n, m, 0, j, kind)
    k = 0
    while X is None:
        k += 1
        X = fam.generic(n, m, 0, j + 50 * k, kind)
    return np.array(X, float)


def _data(v):
    """Variants: A (larger), B (smaller, other width), C (the shape of A, other data), with 1-D and 2-D targets."""
    if v.startswith("A"):
        X = _gen(8, 4, 1, "centered")
    elif v.startswith("C"):
        X = _gen(8, 4, 7, "centered")
    else:
        X = _gen(6, 5, 2, "centered")
    n = len(X)
    y1 = np.array(fam.generic_vec(n, 0, {"A": 3, "B": 4, "C": 8}[v[0]]), float)
    y1 -= y1.mean()
    Y2 = np.array(fam.generic_vec(n, 0, {"A": 5, "B": 6, "C": 9}[v[0]], 2), float)
    Y2 -= Y2.mean(axis=0)
    return X, y1, Y2


def _int_data(v):
    rng = np.random.default_rng([9, 1 if v.startswith("A") else 2])
    n, m = (8, 4) if v.startswith("A") else (6, 5)
    return rng.integers(-3, 4, size=(n, m)).astype(float)


# --------------------------------------------------------------------------------------
# entry-point catalogue


def _sel_entry(kind, direction):
    from .. import sel

    def args(v):
        X, y1, Y2 = _data(v)
        a = {"X": X}
        if sel.needs_y(kind) or (direction == "sample" and not v.endswith("-noy")):
            a["y"] = y1
        if v.endswith("-y2d"):
            a["y"] = y1.reshape(-1, 1)
        if sel.needs_y(kind) and v.endswith("-noy"):
            a["y"] = y1
        if kind == "FPS":
            a["init"] = np.array([1, 0])
        return a

    def make(a):
        p = dict(n_to_select=3)
        if kind == "FPS":
            p["initialize"] = a["init"]
        if kind in ("CUR", "PCovCUR"):
            p["k"] = 1
        if kind == "VoronoiFPS":
            p["full_fraction"] = 0.5
        return sel.make(kind, direction, **p)

    methods = [("selected_idx_", lambda e, a: np.array(e.selected_idx_, copy=True)), ("get_support-unordered", lambda e, a: e.get_support(indices=True)),
               ("get_support", lambda e, a: e.get_support(indices=True, ordered=True)), ("score", lambda e, a: np.array(e.score(a["X"], a.get("y")), copy=True))]
    if "FPS" in kind:
        methods.append(("get_select_distance", lambda e, a: np.array(e.get_select_distance(), copy=True)))
        methods.append(("get_distance", lambda e, a: np.array(e.get_distance(), copy=True)))
    if direction == "feature":
        methods.append(("transform", lambda e, a: e.transform(a["X"])))
        methods.append(("fit_transform", lambda e, a: make(a).fit(a["X"], a.get("y")).transform(a["X"]) if True else None))
    hist = [("A", "A"), ("A", "B"), ("B", "A")]
    if direction == "sample" and not sel.needs_y(kind):
        hist += [("A", "A-noy"), ("A-noy", "A"), ("A", "B-noy")]
    if sel.needs_y(kind) or direction == "sample":
        hist += [("A", "A-y2d"), ("A-y2d", "B")]
    return dict(
        name="%s/%s" % (kind, direction), args=args, make=make, fit=lambda e, a: e.fit(a["X"], a.get("y")), methods=methods,
        histories=hist, int_ok={"X"}, loose={"pi_", "X_current_", "y_current_"},
    )


def _with(est, **params):
    for k, v in params.items():
        setattr(est, k, v)
    return est


def _catalogue():
    from sklearn.kernel_ridge import KernelRidge
    from sklearn.linear_model import Ridge

    import skmatter.metrics as M
    import skmatter.utils as U
    from skmatter.clustering import QuickShift
    from skmatter.decomposition import KernelPCovR, PCovR
    from skmatter.linear_model import OrthogonalRegression, Ridge2FoldCV
    from skmatter.model_selection import train_test_split
    from skmatter.neighbors import SparseKDE
    from skmatter.preprocessing import KernelNormalizer, SparseKernelCenterer, StandardFlexibleScaler
    from skmatter.sample_selection import DirectionalConvexHull

    E = []
    for kind in ("FPS", "PCovFPS", "CUR", "PCovCUR"):
        for d in ("sample", "feature"):
            E.append(_sel_entry(kind, d))
    E.append(_sel_entry("VoronoiFPS", "sample"))
    for kind, d in (("FPS", "feature"), ("PCovFPS", "sample"), ("PCovFPS", "feature"), ("VoronoiFPS", "sample")):
        e4 = _sel_entry(kind, d)
        e4["name"] = "%s/%s/initialize=random" % (kind, d)
        mk4 = e4["make"]
        e4["make"] = lambda a, mk4=mk4: _with(mk4(a), initialize="random")
        E.append(e4)
    for kind, d in (("FPS", "sample"), ("CUR", "feature"), ("PCovFPS", "feature")):
        e3 = _sel_entry(kind, d)
        e3["name"] = "%s/%s/relative-threshold" % (kind, d)
        mk3 = e3["make"]
        e3["make"] = lambda a, mk3=mk3: _with(mk3(a), n_to_select=4, score_threshold=0.35, score_threshold_type="relative")
        E.append(e3)
    for d in ("sample", "feature"):
        for kind in ("CUR", "PCovCUR"):
            e2 = _sel_entry(kind, d)
            e2["name"] = "%s/%s/recompute_every=2" % (kind, d)
            mk = e2["make"]
            e2["make"] = lambda a, mk=mk: _with(mk(a), recompute_every=2)
            E.append(e2)

    # ---- DirectionalConvexHull
    def dch_args(v):
        X, y1, _ = _data(v)
        return {"X": X, "y": y1, "low": [0, 1]}
    E.append(dict(
        name="DirectionalConvexHull", args=dch_args, make=lambda a: DirectionalConvexHull(low_dim_idx=a["low"]),
        fit=lambda e, a: e.fit(a["X"], a["y"]),
        methods=[("score_samples", lambda e, a: e.score_samples(a["X"], a["y"])), ("score_feature_matrix", lambda e, a: e.score_feature_matrix(a["X"]))],
        histories=[("A", "A"), ("A", "B"), ("B", "A")], int_ok=set(),
    ))

    # ---- PCovR / KernelPCovR
    def pc_args(v):
        X, y1, Y2 = _data(v)
        return {"X": X, "Y": y1 if v.endswith("-y1d") else Y2}
    for space in ("feature", "sample"):
        for reg in ("none", "ridge"):
            E.append(dict(
                name="PCovR/%s/%s" % (space, reg), args=pc_args,
                make=lambda a, space=space, reg=reg: PCovR(mixing=0.5, n_components=2, space=space, regressor=None if reg == "none" else Ridge(alpha=1e-3, fit_intercept=False)),
                fit=lambda e, a: e.fit(a["X"], a["Y"]),
                methods=[("transform", lambda e, a: e.transform(a["X"])), ("predict", lambda e, a: e.predict(a["X"])),
                         ("inverse_transform", lambda e, a: e.inverse_transform(e.transform(a["X"]))), ("score", lambda e, a: e.score(a["X"], a["Y"]))],
                histories=[("A", "A"), ("A", "B"), ("B", "A"), ("A", "A-y1d"), ("A-y1d", "B")], int_ok=set(),
            ))
    # more than 500 samples: svd_solver="auto" resolves to the randomized solver there (size-dependent branch);
    # variant B is small again (resolves to "full")
    def pcbig_args(v):
        if v.startswith("B"):
            X, y1, Y2 = _data("A")
            return {"X": X, "Y": Y2}
        rng = np.random.default_rng([9, 520, 3 if v.startswith("A") else 4])
        X = np.round(rng.standard_normal((520, 6)) * (0.6 ** np.arange(6)) * 256) / 256
        X -= X.mean(axis=0)
        Y = np.round(rng.standard_normal((520, 2)) * 64) / 64 + X[:, :2]
        return {"X": X, "Y": Y - Y.mean(axis=0)}
    E.append(dict(
        name="PCovR/auto-solver/520-samples", args=pcbig_args,
        make=lambda a: PCovR(mixing=0.5, n_components=2, random_state=0),
        fit=lambda e, a: e.fit(a["X"], a["Y"]),
        methods=[("transform", lambda e, a: e.transform(a["X"])), ("predict", lambda e, a: e.predict(a["X"])), ("score", lambda e, a: e.score(a["X"], a["Y"]))],
        histories=[("A", "A"), ("A", "B"), ("B", "A")], int_ok=set(),
    ))
    for kern, center in (("linear", False), ("rbf", True)):
        E.append(dict(
            name="KernelPCovR/%s/center=%s" % (kern, center), args=pc_args,
            make=lambda a, kern=kern, center=center: KernelPCovR(mixing=0.5, n_components=2, kernel=kern, gamma=0.5, center=center, regressor=KernelRidge(alpha=1e-3, kernel=kern, gamma=0.5), fit_inverse_transform=True),
            fit=lambda e, a: e.fit(a["X"], a["Y"]),
            methods=[("transform", lambda e, a: e.transform(a["X"])), ("predict", lambda e, a: e.predict(a["X"])), ("score", lambda e, a: e.score(a["X"], a["Y"])),
                     ("inverse_transform", lambda e, a: e.inverse_transform(e.transform(a["X"])))],
            histories=[("A", "A"), ("A", "B"), ("B", "A"), ("A", "A-y1d")], int_ok=set(),
        ))

    def kpre_args(v):
        X, y1, Y2 = _data(v)
        Xt = X[:3] * 0.5 + 0.25
        return {"K": (X @ X.T + 1.0) ** 2, "Kt": (Xt @ X.T + 1.0) ** 2, "Y": Y2}
    for center in (False, True):
        E.append(dict(
            name="KernelPCovR/precomputed/center=%s" % center, args=kpre_args,
            make=lambda a, center=center: KernelPCovR(mixing=0.5, n_components=2, kernel="precomputed", center=center, regressor=KernelRidge(alpha=1e-3, kernel="precomputed")),
            fit=lambda e, a: e.fit(a["K"], a["Y"]),
            methods=[("transform", lambda e, a: e.transform(a["K"])), ("transform-test", lambda e, a: e.transform(a["Kt"])), ("predict", lambda e, a: e.predict(a["Kt"])), ("score", lambda e, a: e.score(a["K"], a["Y"]))],
            histories=[("A", "A"), ("A", "B"), ("B", "A")], int_ok=set(),
        ))

    # ---- scalers / kernel centerers
    def sc_args(v):
        X, _, _ = _data(v)
        return {"X": X + 1.5, "w": np.arange(1.0, len(X) + 1.0)}
    for cw in (False, True):
        E.append(dict(
            name="StandardFlexibleScaler/column_wise=%s" % cw, args=sc_args, make=lambda a, cw=cw: StandardFlexibleScaler(column_wise=cw),
            fit=lambda e, a: e.fit(a["X"], sample_weight=a["w"]),
            methods=[("transform", lambda e, a: e.transform(a["X"])), ("inverse_transform", lambda e, a: e.inverse_transform(np.asarray(e.transform(a["X"])))),
                     ("fit_transform", lambda e, a, cw=cw: StandardFlexibleScaler(column_wise=cw).fit_transform(a["X"], sample_weight=a["w"]))],
            fit_transform=lambda e, a, cw=cw: (StandardFlexibleScaler(column_wise=cw).fit_transform(a["X"], sample_weight=a["w"]), e.transform(a["X"])),
            histories=[("A", "A"), ("A", "B"), ("B", "A")], int_ok={"X"},
        ))

    def kn_args(v):
        X, _, _ = _data(v)
        Xt = X[:3] + 0.25
        return {"K": X @ X.T, "Kt": Xt @ X.T, "w": np.arange(1.0, len(X) + 1.0)}
    E.append(dict(
        name="KernelNormalizer/unweighted", args=lambda v: {k: x for k, x in kn_args(v).items() if k != "w"}, make=lambda a: KernelNormalizer(), fit=lambda e, a: e.fit(a["K"]),
        methods=[("transform", lambda e, a: e.transform(a["K"])), ("transform-test", lambda e, a: e.transform(a["Kt"]))],
        fit_transform=lambda e, a: (KernelNormalizer().fit_transform(a["K"]), e.transform(a["K"])),
        histories=[("A", "A"), ("A", "B"), ("B", "A")], int_ok=set(),
    ))
    E.append(dict(
        name="KernelNormalizer", args=kn_args, make=lambda a: KernelNormalizer(), fit=lambda e, a: e.fit(a["K"], sample_weight=a["w"]),
        methods=[("transform", lambda e, a: e.transform(a["K"])), ("transform-test", lambda e, a: e.transform(a["Kt"]))],
        fit_transform=lambda e, a: (KernelNormalizer().fit_transform(a["K"], sample_weight=a["w"]), e.transform(a["K"])),
        histories=[("A", "A"), ("A", "B"), ("B", "A")], int_ok=set(),
    ))

    def skc_args(v):
        X, _, _ = _data(v)
        act = X[:3]
        return {"Knm": X @ act.T, "Kmm": act @ act.T, "w": np.arange(1.0, len(X) + 1.0)}
    E.append(dict(
        name="SparseKernelCenterer", args=skc_args, make=lambda a: SparseKernelCenterer(), fit=lambda e, a: e.fit(a["Knm"], a["Kmm"], sample_weight=a["w"]),
        methods=[("transform", lambda e, a: e.transform(a["Knm"]))],
        fit_transform=lambda e, a: (SparseKernelCenterer().fit_transform(a["Knm"], a["Kmm"], sample_weight=a["w"]), e.transform(a["Knm"])),
        histories=[("A", "A"), ("A", "B"), ("B", "A")], int_ok=set(),
    ))

    # ---- linear models
    def lm_args(v):
        X, y1, Y2 = _data(v)
        return {"X": X, "y": y1 if v.endswith("-y1d") else Y2, "alphas": np.array([1e-3, 1e-1, 0.5])}
    for method in ("tikhonov", "cutoff"):
        E.append(dict(
            name="Ridge2FoldCV/%s" % method, args=lm_args,
            make=lambda a, method=method: Ridge2FoldCV(alphas=a["alphas"], alpha_type="relative" if method == "cutoff" else "absolute", regularization_method=method, shuffle=True, random_state=3),
            fit=lambda e, a: e.fit(a["X"], a["y"]), methods=[("predict", lambda e, a: e.predict(a["X"]))],
            histories=[("A", "A"), ("A", "B"), ("B", "A"), ("A", "A-y1d")], int_ok=set(),
        ))
    for proj in (True, False):
        E.append(dict(
            name="OrthogonalRegression/projector=%s" % proj, args=lm_args, make=lambda a, proj=proj: OrthogonalRegression(use_orthogonal_projector=proj),
            fit=lambda e, a: e.fit(a["X"], a["y"] if np.ndim(a["y"]) > 1 else np.reshape(a["y"], (-1, 1))), methods=[("predict", lambda e, a: e.predict(a["X"]))],
            histories=[("A", "A"), ("A", "B"), ("B", "A")], int_ok=set(),
        ))

    # ---- SparseKDE / QuickShift
    def kde_args(v):
        X, _, _ = _data(v)
        D = np.vstack([X[:, :2], X[:, 2:4] + 2.0])
        return {"D": D, "w": np.arange(1.0, len(D) + 1.0), "G": D[[0, 3, len(D) // 2, len(D) - 1]].copy(), "G2": D[[1, 2, len(D) - 2]].copy(), "Q": D[:3] + 0.1}
    for cell in (None, [9.0, 9.0]):
        E.append(dict(
            name="SparseKDE/cell=%s" % (cell is not None), args=kde_args,
            make=lambda a, cell=cell: SparseKDE(a["D"], a["w"], fpoints=0.4, **({} if cell is None else {"metric_params": {"cell_length": np.array(cell)}})),
            fit=lambda e, a: e.fit(a["G"]),
            methods=[("score_samples", lambda e, a: e.score_samples(a["Q"])), ("score", lambda e, a: e.score(a["Q"])), ("sample", lambda e, a: e.sample(3, random_state=0))],
            histories=[("A", "A"), ("A", "A-grid2")], refit=lambda e, a, v: e.fit(a["G2"] if v.endswith("-grid2") else a["G"]),
            int_ok=set(), ctor_arrays=True,
        ))

    def qs_args(v):
        X, _, _ = _data(v)
        P = X[:, :2]
        return {"P": P, "w": np.arange(1.0, len(P) + 1.0)[::-1].copy(), "cut": np.full(len(P), 0.8)}
    E.append(dict(
        name="QuickShift/cutoff", args=qs_args, make=lambda a: QuickShift(dist_cutoff_sq=a["cut"], scale=2.0),
        fit=lambda e, a: e.fit(a["P"], samples_weight=a["w"]), methods=[("labels", lambda e, a: e.labels_)],
        histories=[("A", "A")], int_ok=set(), ctor_arrays=True,
    ))
    E.append(dict(
        name="QuickShift/gabriel", args=qs_args, make=lambda a: QuickShift(gabriel_shell=2),
        fit=lambda e, a: e.fit(a["P"], samples_weight=a["w"]), methods=[("labels", lambda e, a: e.labels_)],
        histories=[("A", "A"), ("A", "B"), ("B", "A")], int_ok=set(),
    ))

    # ---- functions
    def rm_args(v):
        X, _, Y2 = _data(v)
        n = len(X)
        return {"X": X, "Y": Y2, "tr": np.arange(0, n, 2), "te": np.arange(1, n, 2)}
    for fname in ("global_reconstruction_error", "pointwise_global_reconstruction_error", "global_reconstruction_distortion", "pointwise_global_reconstruction_distortion"):
        E.append(dict(name=fname, args=rm_args, func=lambda a, f=getattr(M, fname): f(a["X"], a["Y"], train_idx=a["tr"], test_idx=a["te"]), int_ok=set()))
    for fname in ("local_reconstruction_error", "pointwise_local_reconstruction_error"):
        E.append(dict(name=fname, args=rm_args, func=lambda a, f=getattr(M, fname): f(a["X"], a["Y"], 3, train_idx=a["tr"], test_idx=a["te"]), int_ok=set()))

    def pr_args(v):
        X, _, _ = _data(v)
        return {"train": [X[:2] + 1, X[2:5] + 1, X[5:] + 1], "test": [X[:1] + 2, X[3:6] + 2], "comp": np.array([1, X.shape[1] - 1])}
    E.append(dict(name="local_prediction_rigidity", args=pr_args, func=lambda a: M.local_prediction_rigidity(a["train"], a["test"], 1e-2), int_ok=set()))
    E.append(dict(name="componentwise_prediction_rigidity", args=pr_args, func=lambda a: M.componentwise_prediction_rigidity(a["train"], a["test"], 1e-2, a["comp"]), int_ok=set()))

    def pd_args(v):
        X, _, _ = _data(v)
        P = X[:, :2] * 3
        return {"X": P, "Y": P[:3] + 0.5, "cell": np.array([2.0, 3.5]), "cov": np.array([[[2.0, 0.5], [0.5, 1.0]], [[1.0, 0.0], [0.0, 1.0]]])}
    E.append(dict(name="periodic_pairwise_euclidean_distances", args=pd_args, func=lambda a: M.periodic_pairwise_euclidean_distances(a["X"], a["Y"], cell_length=a["cell"]), int_ok=set()))
    nocell = lambda v: {k: x for k, x in pd_args(v).items() if k != "cell"}  # noqa: E731
    E.append(dict(name="periodic_pairwise_euclidean_distances(no cell)", args=nocell, func=lambda a: M.periodic_pairwise_euclidean_distances(a["X"], a["Y"]), int_ok=set()))
    E.append(dict(name="pairwise_mahalanobis_distances(no cell)", args=nocell, func=lambda a: M.pairwise_mahalanobis_distances(a["X"], a["Y"], a["cov"]), int_ok=set()))
    E.append(dict(name="pairwise_mahalanobis_distances", args=pd_args, func=lambda a: M.pairwise_mahalanobis_distances(a["X"], a["Y"], a["cov"], cell_length=a["cell"]), int_ok=set()))

    def or_args(v):
        X, y1, Y2 = _data(v)
        return {"x1": X, "x2": X[:, :2] + 0.3, "y": Y2, "Xr": X[:4], "yr": Y2[:4]}
    E.append(dict(name="X_orthogonalizer(c, copy=True)", args=or_args, func=lambda a: U.X_orthogonalizer(a["x1"], c=1, copy=True), int_ok=set()))
    E.append(dict(name="X_orthogonalizer(x2, copy=True)", args=or_args, func=lambda a: U.X_orthogonalizer(a["x1"], x2=a["x2"], copy=True), int_ok=set()))
    E.append(dict(name="Y_feature_orthogonalizer", args=or_args, func=lambda a: U.Y_feature_orthogonalizer(a["y"], a["x2"]), int_ok=set()))
    E.append(dict(name="Y_sample_orthogonalizer", args=or_args, func=lambda a: U.Y_sample_orthogonalizer(a["y"], a["x1"], a["yr"], a["Xr"]), int_ok=set()))
    E.append(dict(name="pcovr_covariance", args=or_args, func=lambda a: U.pcovr_covariance(0.5, a["x1"], a["y"]), int_ok=set()))
    E.append(dict(name="pcovr_kernel", args=or_args, func=lambda a: U.pcovr_kernel(0.5, a["x1"], a["y"]), int_ok=set()))

    def cov_args(v):
        X, _, _ = _data(v)
        return {"cov": X.T @ X}
    E.append(dict(name="effdim", args=cov_args, func=lambda a: U.effdim(a["cov"]), int_ok=set()))
    E.append(dict(name="oas", args=cov_args, func=lambda a: U.oas(a["cov"], 10.0, a["cov"].shape[0]), int_ok=set()))
    E.append(dict(name="train_test_split", args=rm_args, func=lambda a: train_test_split(a["X"], a["Y"], test_size=0.5, train_size=0.5, random_state=0, train_test_overlap=True), int_ok=set()))
    return E


_CAT = None


def _cat():
    global _CAT
    if _CAT is None:
        _CAT = _catalogue()
        try:
            import skmatter.clustering._quick_shift as qm

            qm.tqdm = lambda it, *a, **k: it
        except Exception:
            pass
    return _CAT


# --------------------------------------------------------------------------------------
# layouts and snapshots

LAYOUTS = ["C", "F", "ro", "view", "int"]


def _lay(arr, layout):
    arr = np.asarray(arr)
    if layout == "C":
        return np.ascontiguousarray(arr).copy()
    if layout == "F":
        return np.asfortranarray(arr).copy() if arr.ndim >= 2 else np.ascontiguousarray(arr).copy()
    if layout == "ro":
        a = np.ascontiguousarray(arr).copy()
        a.setflags(write=False)
        return a
    if layout == "view":
        big = np.zeros(tuple(2 * s for s in arr.shape), dtype=arr.dtype)
        sl = tuple(slice(None, None, 2) for _ in arr.shape)
        big[sl] = arr
        return big[sl]
    if layout == "int":
        # integer-valued data with an integer dtype (rounded to eighths, then scaled: the structure is kept)
        return np.round(np.ascontiguousarray(arr) * 8.0).astype(np.int64)
    raise ValueError(layout)


def _apply(val, layout):
    if isinstance(val, list) and val and isinstance(val[0], np.ndarray):
        return [_lay(v, layout) for v in val]
    if isinstance(val, np.ndarray):
        return _lay(val, layout)
    return val  # python lists of ints etc. stay as given


def _snap(val):
    if isinstance(val, list):
        return ("list", tuple(_snap(v) for v in val))
    if isinstance(val, np.ndarray):
        return ("arr", val.tobytes(), val.shape, val.dtype.str, val.strides, bool(val.flags.writeable), bool(val.flags.c_contiguous), bool(val.flags.f_contiguous))
    return ("obj", repr(val))


def _layouts_for(name, val, entry):
    if isinstance(val, np.ndarray) or (isinstance(val, list) and val and isinstance(val[0], np.ndarray)):
        first = val if isinstance(val, np.ndarray) else val[0]
        outs = ["C", "ro", "view"] + (["F"] if first.ndim >= 2 else [])
        if name in entry.get("int_ok", ()) or name not in ("alphas", "cell", "cov", "w", "cut", "init", "tr", "te", "comp", "low"):
            outs.append("int")
        if first.dtype.kind in "iu":
            outs = [o for o in outs if o != "int"]
        return outs
    return ["C"]


def bounds(tier, seed):
    cat = _cat()
    return dict(
        entry_points=[e["name"] for e in cat],
        n_entry_points=len(cat),
        layouts=LAYOUTS,
        histories=["A;A", "A;B", "B;A", "with-y;without-y", "1-D y;2-D y", "1-D y;other data"],
        voronoi_clock_outcomes=3,
        seed=seed,
    )


def groups(tier, seed):
    out = []
    for i, e in enumerate(_cat()):
        out.append(dict(kind="purity", entry=i, name=e["name"], tier=tier))
        if "make" in e:
            out.append(dict(kind="history", entry=i, name=e["name"]))
    out.append(dict(kind="voronoi-clock", name="VoronoiFPS/calibrated"))
    return out


def cases(group):
    if group["kind"] == "purity":
        e = _cat()[group["entry"]]
        a = e["args"]("A")
        names = sorted(a)
        menus = [_layouts_for(nm, a[nm], e) for nm in names]
        combos = list(itertools.product(*menus))
        if group["tier"] == "quick" and len(combos) > 40:
            # quick tier: every layout of every argument at least once against every layout of the first argument
            keep = []
            for c in combos:
                nondefault = sum(1 for x in c if x != "C")
                if nondefault <= 1 or all(x == c[0] for x in c) or (c[0] != "C" and nondefault == 2):
                    keep.append(c)
            combos = keep
        for combo in combos:
            yield dict(kind="purity", entry=group["entry"], name=group["name"], layouts=dict(zip(names, combo)))
    elif group["kind"] == "history":
        e = _cat()[group["entry"]]
        hs = list(e["histories"])
        if ("A", "B") in hs and not e.get("ctor_arrays"):
            hs += [("A", "C"), ("C", "A")]  # same shape, other data: a cache keyed on the shape must not survive
        for h in hs:
            yield dict(kind="history", entry=group["entry"], name=group["name"], hist=list(h))
    else:
        for answers in ([0] * 7, [1] * 7, [1, 0, 1, 0, 1, 0, 1]):
            yield dict(kind="voronoi-clock", name=group["name"], answers=answers)


# --------------------------------------------------------------------------------------
# comparison helpers


def _close(a, b, rtol=1e-6):
    if a is None or b is None:
        return a is None and b is None
    if isinstance(a, (list, tuple)) and isinstance(b, (list, tuple)):
        return len(a) == len(b) and all(_close(x, y, rtol) for x, y in zip(a, b))
    try:
        A, B = np.asarray(a), np.asarray(b)
    except Exception:
        return type(a) is type(b)
    if A.dtype == object or B.dtype == object:
        return type(a) is type(b)
    if A.shape != B.shape:
        return False
    if A.dtype.kind in "biu" and B.dtype.kind in "biu":
        return bool(np.array_equal(A, B))
    if A.dtype.kind not in "fiub" or B.dtype.kind not in "fiub":
        return bool(np.array_equal(A, B))
    A, B = A.astype(float), B.astype(float)
    na, nb = ~np.isfinite(A), ~np.isfinite(B)
    if not np.array_equal(na, nb):
        return False
    if na.any() and not np.array_equal(np.isnan(A[na]), np.isnan(B[nb])):
        return False
    if (~na).any():
        fa, fb = A[~na], B[~nb]
        scale = max(1.0, float(np.abs(fa).max()), float(np.abs(fb).max()))
        return bool(np.abs(fa - fb).max() <= rtol * scale)
    return True


def _state(obj, depth=0):
    """Canonical comparable state of an estimator: attribute -> value / nested state / type tag."""
    out = {}
    for k, v in vars(obj).items():
        if callable(v) and not hasattr(v, "get_params"):
            out[k] = ("opaque", type(v).__name__)
        elif hasattr(v, "get_params") and depth < 2:
            out[k] = ("est", type(v).__name__, _state(v, depth + 1))
        elif isinstance(v, (np.ndarray, list, tuple, int, float, str, bool, type(None), np.integer, np.floating)):
            out[k] = ("val", v)
        elif isinstance(v, dict):
            out[k] = ("dict", {kk: ("val", vv) if isinstance(vv, (np.ndarray, list, int, float, str, type(None))) else ("opaque", type(vv).__name__) for kk, vv in v.items()})
        else:
            out[k] = ("opaque", type(v).__name__)
    return out


def _diff_state(a, b, loose=(), path=""):
    diffs = []
    for k in sorted(set(a) | set(b)):
        if k not in a or k not in b:
            diffs.append("%s%s only on the %s estimator" % (path, k, "refitted" if k in a else "fresh"))
            continue
        x, y = a[k], b[k]
        if x[0] != y[0]:
            diffs.append("%s%s: kind %s vs %s" % (path, k, x[0], y[0]))
        elif x[0] == "val":
            if not _close(x[1], y[1], 1e-4 if k in loose else 1e-6):
                diffs.append("%s%s differs" % (path, k))
        elif x[0] == "est":
            if x[1] != y[1]:
                diffs.append("%s%s: %s vs %s" % (path, k, x[1], y[1]))
            else:
                diffs += _diff_state(x[2], y[2], loose, path + k + ".")
        elif x[0] == "dict":
            for kk in sorted(set(x[1]) | set(y[1])):
                if kk not in x[1] or kk not in y[1] or x[1][kk][0] != y[1][kk][0] or (x[1][kk][0] == "val" and not _close(x[1][kk][1], y[1][kk][1])):
                    diffs.append("%s%s[%s] differs" % (path, k, kk))
        elif x[1] != y[1]:
            diffs.append("%s%s: opaque %s vs %s" % (path, k, x[1], y[1]))
    return diffs


def _params_snapshot(est):
    out = {}
    for k, v in est.get_params(deep=False).items():
        if hasattr(v, "get_params"):
            out[k] = ("est", type(v).__name__, repr(sorted((kk, repr(vv)) for kk, vv in v.get_params().items())), _fitted_sig(v))
        elif isinstance(v, np.ndarray):
            out[k] = ("arr", v.tobytes(), v.shape, v.dtype.str)
        else:
            out[k] = ("val", repr(v))
    return out


def _fitted_sig(v):
    sig = []
    for k, x in sorted(vars(v).items()):
        if k.endswith("_") and isinstance(x, np.ndarray):
            sig.append((k, x.tobytes()))
    return tuple(sig)


# --------------------------------------------------------------------------------------


def check(case):
    warnings.simplefilter("ignore")
    r = R()
    r.states = 0
    r.transitions = 0
    if case["kind"] == "voronoi-clock":
        return _check_voronoi_clock(r, case)
    e = _cat()[case["entry"]]
    name = e["name"]

    if case["kind"] == "purity":
        lay = case["layouts"]
        a = {k: _apply(v, lay.get(k, "C")) for k, v in e["args"]("A").items()}
        before = {k: _snap(v) for k, v in a.items()}

        def step(label, fn):
            """Run one call; judge read-only failures and argument purity."""
            r.transitions += 1
            try:
                out = fn()
            except Exception as ex:
                msg = repr(ex)
                ro = any(v == "ro" for v in lay.values())
                if ro and ("read-only" in msg or "readonly" in msg or "WRITEABLE" in msg or "not writeable" in msg):
                    r.fail("read-only-argument-makes-call-fail:%s" % name.split("/")[0], "%s %s with layouts %s: %s" % (name, label, lay, msg))
                else:
                    r.fail("call-fails-for-layout:%s" % type(ex).__name__, "%s %s with layouts %s: %s" % (name, label, lay, msg))
                return None, False
            changed = [k for k in a if _snap(a[k]) != before[k]]
            if changed:
                kind = "caller-array-modified:%s" % name.split("/")[0]
                r.fail(kind, "%s %s modified argument(s) %s (layouts %s)" % (name, label, changed, lay))
                return out, False
            return out, True

        if "func" in e:
            out1, ok = step("call", lambda: e["func"](a))
            if ok:
                out2, ok2 = step("repeated call", lambda: e["func"](a))
                if ok2 and not _close(_plain(out1), _plain(out2), 1e-9):
                    r.fail("repeated-call-differs", "%s (layouts %s)" % (name, lay))
                # the SAME array objects with new contents (updated in place by the caller) must give the result
                # of fresh arrays with those contents: nothing may be remembered by object identity
                if ok2 and all(v in ("C", "F") for v in lay.values()):
                    changed_any = False
                    for k, v in a.items():
                        for arr in (v if isinstance(v, list) else [v]):
                            if isinstance(arr, np.ndarray) and arr.dtype.kind == "f" and arr.flags.writeable and k not in ("cell", "cov"):
                                arr *= 1.25
                                arr += 0.125
                                changed_any = True
                    if changed_any:
                        try:
                            o3 = e["func"](a)
                            fresh = {k: ([x.copy() for x in v] if isinstance(v, list) else (v.copy() if isinstance(v, np.ndarray) else v)) for k, v in a.items()}
                            o4 = e["func"](fresh)
                            r.transitions += 2
                            if not _close(_plain(o3), _plain(o4), 1e-9):
                                r.fail("result-depends-on-array-identity", "%s: same array objects updated in place vs fresh copies" % name)
                        except Exception as ex:
                            r.fail("call-fails-after-in-place-update:%s" % type(ex).__name__, "%s: %r" % (name, ex))
            r.states += 1
        else:
            est, ok = step("constructor", lambda: e["make"](a))
            if not ok or est is None:
                return _finish(r, case)
            try:
                p0 = _params_snapshot(est)
            except Exception:
                p0 = None
            ret, ok = step("fit", lambda: e["fit"](est, a))
            if not ok:
                return _finish(r, case)
            if ret is not est:
                r.fail("fit-does-not-return-self", name)
            if p0 is not None:
                p1 = _params_snapshot(est)
                for k in p0:
                    if p0[k] != p1.get(k):
                        r.fail("fit-changes-hyper-parameter", "%s: parameter %s changed by fit (%s -> %s)" % (name, k, str(p0[k])[:80], str(p1.get(k))[:80]))
            r.states += 1
            st_fit = _state(est)  # state right after fit (lazy caches are filled by later calls)
            outs = {}
            for mname, fn in e["methods"]:
                o, ok = step(mname, lambda fn=fn: fn(est, a))
                if not ok:
                    return _finish(r, case)
                outs[mname] = _plain(o)
                o2, ok = step(mname + " (repeated)", lambda fn=fn: fn(est, a))
                if ok and not _close(outs[mname], _plain(o2), 1e-9):
                    r.fail("repeated-call-differs", "%s.%s (layouts %s)" % (name, mname, lay))
                r.states += 1
            if "fit_transform" in e:
                pair, ok = step("fit_transform", lambda: e["fit_transform"](est, a))
                if ok and not _close(_plain(pair[0]), _plain(pair[1]), 1e-9):
                    r.fail("fit_transform-differs-from-fit-then-transform", name)
            if name.endswith("/feature") and "transform" in outs:
                ft, ok = step("fit_transform", lambda: e["make"](a).fit_transform(a["X"], a.get("y")))
                if ok and not _close(_plain(ft), outs["transform"], 1e-9):
                    r.fail("fit_transform-differs-from-fit-then-transform", name)
            # the ORDER of public calls on a fitted estimator must not matter: a fresh fit, methods in reverse order
            est_r, ok = step("estimator for reversed call order", lambda: e["fit"](e["make"](a), a))
            if ok:
                for mname, fn in reversed(e["methods"]):
                    o, ok2 = step(mname + " (reversed order)", lambda fn=fn: fn(est_r, a))
                    if not ok2:
                        break
                    if mname != "sample" and not _close(outs[mname], _plain(o), 1e-9):
                        r.fail("result-depends-on-the-order-of-public-calls", "%s.%s differs when the methods are called in reverse order" % (name, mname))
                        break
            # a second estimator with the same inputs gives the same result
            est2, ok = step("second estimator", lambda: e["fit"](e["make"](a), a))
            if ok:
                d = _diff_state(_state(est2), st_fit, e.get("loose", ()))
                if d:
                    r.fail("same-inputs-different-state", "%s: %s" % (name, "; ".join(d)[:300]))
        # integer-typed arguments must behave like the same values passed as floats
        # (X_orthogonalizer keeps the dtype of its input by design - `.astype(xnew.dtype)` - and is not compared)
        if not r.violations and any(v == "int" for v in lay.values()) and not name.startswith("X_orthogonalizer"):
            def as_float(v):
                if isinstance(v, list):
                    return [x.astype(float) if isinstance(x, np.ndarray) and x.dtype.kind in "iu" else x for x in v]
                return v.astype(float) if isinstance(v, np.ndarray) and v.dtype.kind in "iu" else v
            def dup(v):
                if isinstance(v, np.ndarray):
                    return v.copy()
                if isinstance(v, list):
                    return [x.copy() if isinstance(x, np.ndarray) else x for x in v]
                return v
            af = {k: (as_float(v) if lay.get(k) == "int" else dup(v)) for k, v in a.items()}
            try:
                if "func" in e:
                    oi, of = _plain(e["func"](a)), _plain(e["func"](af))
                    if not _close(oi, of, 1e-9):
                        r.fail("integer-dtype-changes-the-result:%s" % name.split("/")[0], "%s: integer-typed %s vs the same values as float" % (name, [k for k, v in lay.items() if v == "int"]))
                else:
                    ei = e["fit"](e["make"](a), a)
                    ef = e["fit"](e["make"](af), af)
                    for mname, fn in e["methods"]:
                        if mname == "sample":
                            continue
                        oi, of = _plain(fn(ei, a)), _plain(fn(ef, af))
                        if not _close(oi, of, 1e-8):
                            r.fail("integer-dtype-changes-the-result:%s" % name.split("/")[0], "%s.%s: integer-typed %s vs the same values as float" % (name, mname, [k for k, v in lay.items() if v == "int"]))
                            break
                r.transitions += 2
            except Exception as ex:
                r.fail("integer-dtype-differential-crash:%s" % type(ex).__name__, "%s: %r" % (name, ex))
        r.nontrivial = any(v != "C" for v in lay.values())
        return _finish(r, case)

    # ---- history: fit on v1, then on v2; compare with a fresh estimator fitted on v2
    v1, v2 = case["hist"]
    a1, a2 = e["args"](v1), e["args"](v2)
    refit = e.get("refit")
    try:
        est = e["make"](a1)
        (refit(est, a1, v1) if refit else e["fit"](est, a1))
        r.transitions += 1
        for mname, fn in e["methods"]:  # use the fitted estimator (fills lazy caches) before refitting
            fn(est, a1)
            r.transitions += 1
        # an independent bystander instance: later fits of OTHER instances must not touch it
        bystander = e["make"](e["args"](v1))
        b_args = e["args"](v1)
        (refit(bystander, b_args, v1) if refit else e["fit"](bystander, b_args))
        import copy

        b_snap = copy.deepcopy(_state(bystander))
    except Exception as ex:
        return r.fail("first-fit-crash:%s" % type(ex).__name__, "%s on %s: %r" % (name, v1, ex))
    try:
        if e.get("ctor_arrays"):
            # constructor-bound data: the refit keeps the estimator's own data, only the fit argument changes
            (refit(est, a1, v2) if refit else e["fit"](est, a1))
        else:
            e["fit"](est, a2)
        r.transitions += 1
    except Exception as ex:
        return r.fail("refit-crash:%s:%s" % (type(ex).__name__, name.split("/")[0]), "%s fitted on %s cannot be refitted on %s: %r" % (name, v1, v2, ex))
    try:
        if e.get("ctor_arrays"):
            fresh = e["make"](e["args"](v1))
            (refit(fresh, e["args"](v1), v2) if refit else e["fit"](fresh, e["args"](v1)))
        else:
            fresh = e["make"](a2)
            e["fit"](fresh, a2)
        r.transitions += 1
    except Exception as ex:
        return r.fail("fresh-fit-crash:%s" % type(ex).__name__, "%s on %s: %r" % (name, v2, ex))
    db = _diff_state(_state(bystander), b_snap, ())
    if db:
        r.fail("fit-of-another-instance-changes-fitted-estimator", "%s: fitted on %s, then other instances were fitted on %s: %s" % (name, v1, v2, "; ".join(db)[:300]))
    d = _diff_state(_state(est), _state(fresh), e.get("loose", ()))
    r.states += 3
    if d:
        r.fail("refit-differs-from-fresh-fit", "%s: %s then %s vs fresh %s: %s" % (name, v1, v2, v2, "; ".join(d)[:400]))
    else:
        aa = a1 if e.get("ctor_arrays") else a2
        for mname, fn in e["methods"]:
            try:
                o1, o2 = _plain(fn(est, aa)), _plain(fn(fresh, aa))
            except Exception as ex:
                r.fail("method-crash-after-refit:%s" % type(ex).__name__, "%s.%s: %r" % (name, mname, ex))
                break
            r.transitions += 2
            if not _close(o1, o2, 1e-6):
                r.fail("refit-output-differs-from-fresh-fit", "%s.%s after %s;%s" % (name, mname, v1, v2))
                break
    if v1 == v2 and not r.violations:
        # the caller REUSES its arrays: fit, update the same array objects in place, fit a new estimator on them;
        # the result must be that of fresh copies with the new contents (nothing remembered by object identity)
        try:
            a3 = e["args"](v1)
            e3 = e["make"](a3)
            (refit(e3, a3, v1) if refit else e["fit"](e3, a3))
            changed_any = False
            for k, v in a3.items():
                for arr in (v if isinstance(v, list) else [v]):
                    if isinstance(arr, np.ndarray) and arr.dtype.kind == "f" and arr.flags.writeable and k not in ("cell", "cov"):
                        arr *= 1.25
                        arr += 0.125
                        changed_any = True
            if changed_any:
                e4 = e["make"](a3)
                (refit(e4, a3, v1) if refit else e["fit"](e4, a3))
                fr = {k: ([x.copy() if isinstance(x, np.ndarray) else x for x in v] if isinstance(v, list) else (v.copy() if isinstance(v, np.ndarray) else v)) for k, v in a3.items()}
                e5 = e["make"](fr)
                (refit(e5, fr, v1) if refit else e["fit"](e5, fr))
                r.transitions += 3
                d = _diff_state(_state(e4), _state(e5), e.get("loose", ()))
                if not d and not e.get("ctor_arrays"):
                    # ... and the SAME estimator refitted on the same (updated) array objects
                    (refit(e3, a3, v1) if refit else e["fit"](e3, a3))
                    r.transitions += 1
                    d = _diff_state(_state(e3), _state(e5), e.get("loose", ()))
                    if d:
                        d = ["same estimator refitted"] + d
                if d:
                    r.fail("result-depends-on-array-identity", "%s: same array objects updated in place vs fresh copies: %s" % (name, "; ".join(d)[:300]))
                else:
                    for mname, fn in e["methods"]:
                        if mname == "sample":
                            continue
                        o1, o2 = _plain(fn(e4, a3)), _plain(fn(e5, fr))
                        r.transitions += 2
                        if not _close(o1, o2, 1e-9):
                            r.fail("result-depends-on-array-identity", "%s.%s: same array objects updated in place vs fresh copies" % (name, mname))
                            break
        except Exception as ex:
            r.fail("call-fails-after-in-place-update:%s" % type(ex).__name__, "%s: %r" % (name, ex))
    r.nontrivial = v1 != v2
    return _finish(r, case)


def _plain(o):
    if isinstance(o, tuple):
        return [_plain(x) for x in o]
    if isinstance(o, list):
        return [_plain(x) for x in o]
    return o


def _finish(r, case):
    r.outcome = [case.get("name"), case.get("layouts") or case.get("hist")]
    return r


def _check_voronoi_clock(r, case):
    from . import c06
    from .. import sel

    vm = c06._clock_module()
    if vm is None:
        DEGRADED.add("clock seam not available: calibrated VoronoiFPS not exercised")
        return r.skip("clock seam not available")
    X, y1, _ = _data("A")
    before = _snap(X)
    s = sel.make("VoronoiFPS", "sample", n_to_select=4)
    p0 = dict(full_fraction=s.full_fraction, n_trial_calculation=s.n_trial_calculation, initialize=s.initialize)
    real = vm.time
    vm.time = c06.ScriptedClock(s.n_trial_calculation, case["answers"])
    try:
        ret = s.fit(X)
    except Exception as ex:
        vm.time = real
        return r.fail("crash:%s" % type(ex).__name__, repr(ex))
    finally:
        vm.time = real
    r.transitions += 1
    r.states += 1
    if ret is not s:
        r.fail("fit-does-not-return-self", "VoronoiFPS")
    if _snap(X) != before:
        r.fail("caller-array-modified", "VoronoiFPS.fit modified X")
    if s.full_fraction != p0["full_fraction"]:
        r.fail("D8-voronoi-fit-overwrites-full_fraction", "full_fraction=None became %r after fit (clock answers %s)" % (s.full_fraction, case["answers"]))
    for k in ("n_trial_calculation", "initialize"):
        if getattr(s, k) != p0[k]:
            r.fail("fit-changes-hyper-parameter", "VoronoiFPS %s" % k)
    r.nontrivial = True
    r.outcome = [case["answers"], [int(i) for i in s.selected_idx_]]
    return r
