"""T00 — self-test of the explorer machinery (not a property of scikit-matter, not in MANIFEST).

`VERIF_T00_MODE` selects the planted behaviour: ok (default), violation (one case fails
deterministically), flaky (a case fails only in the worker process, never in the replay), hang
(one case never returns), known (a failing case whose kind is listed as `known:`)."""

import os
import time

from ..core import R

ID = "T00"
RULE = "cases = integers 0..99 in 10 groups; non-trivial = odd"
ASSUMPTIONS = ["self-test only"]
DEGRADED = set()
CASE_TIMEOUT = 2
_PARENT = os.getpid()


def bounds(tier, seed):
    return dict(n=100)


def groups(tier, seed):
    return [dict(lo=10 * i) for i in range(10)]


def cases(group):
    for i in range(group["lo"], group["lo"] + 10):
        yield dict(i=i)


def count(group):
    return 10


def check(case):
    r = R()
    mode = os.environ.get("VERIF_T00_MODE", "ok")
    i = case["i"]
    r.nontrivial = bool(i % 2)
    r.outcome = i % 7
    if mode == "violation" and i == 37:
        r.fail("planted", "case 37 is wrong")
    if mode == "flaky" and i == 41 and os.getpid() != _PARENT:
        r.fail("flaky", "fails only inside a worker")
    if mode == "hang" and i == 53:
        while True:
            time.sleep(0.01)
    return r
