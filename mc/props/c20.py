"""C20 — prediction rigidities follow their closed form and scaling laws.

E1 over training lists (every assignment of environment counts {1,2,3} to 3..5 structures),
test lists likewise (including single-environment structures), feature dimension 2..5 (lattice
and generic features), with complete inner walks over alpha in {1e-8,...,1e4} and over ALL
2^(d-1) compositions of the feature dimension into components. Oracle: the closed form
1/(x (X^T X + alpha I)^-1 x^T) with per-structure means and the global scale, by
np.linalg.solve; strict positivity; invariance under common rescaling; monotone in alpha; one
entry per environment per structure in input order; LCPR with one component == LPR; CPR of a
one-environment structure == its LCPR; rank difference == d - rank."""

import itertools

import numpy as np

from .. import fam
from ..core import R

ID = "C20"
DESIGN_REF = "DESIGN.md §4 C20"
EXPLORER = "E1 product-space with complete inner walks over alpha and component compositions"
RULE = (
    "cases = (training environment counts in {1,2,3}^S, S = 3..5) x (test counts in {1,2,3}^3 or a fixed menu) x feature "
    "dimension 2..5 x feature family {lattice, generic}; each case walks 6 alphas and all 2^(d-1) component compositions; "
    "non-trivial = structures with different numbers of environments on both sides and at least one multi-component "
    "composition judged; states = returned values compared with the closed form, transitions = calls of the real functions"
)
ASSUMPTIONS = [
    "judged when cond(X^T X + alpha I) <= 1e13; relative tolerance max(1e-6, 1e3 * cond * eps)",
    "test feature vectors are non-zero in every component block (a zero block gives an infinite rigidity, which is not compared)",
    "rank difference judged when no singular value lies within a factor 1e3 of numpy's default rank tolerance",
]
DEGRADED = set()
ALPHAS = [1e-12, 1e-10, 1e-8, 1e-4, 1e-2, 1.0, 1e2, 1e4]


def bounds(tier, seed):
    return dict(
        train_structures=[3, 4] if tier == "quick" else [3, 4, 5],
        env_counts=[1, 2, 3],
        test_lists="all of {1,2,3}^3 for every 4th training list, a fixed menu of 3 otherwise",
        dims=[2, 3, 4, 5],
        alphas=ALPHAS,
        compositions="all 2^(d-1)",
        families=["lattice", "generic", "intlattice (integer dtype)"],
        seed=seed,
    )


def groups(tier, seed):
    out = []
    for S in ([3, 4] if tier == "quick" else [3, 4, 5]):
        for gi, counts in enumerate(itertools.product([1, 2, 3], repeat=S)):
            if tier == "quick" and S == 4 and gi % 3:
                continue
            out.append(dict(train=list(counts), gi=gi, seed=seed, tier=tier))
    return out


def count(group):
    """closed-form size of a group (independent of the generator): test lists x 4 dimensions x 3 feature families"""
    return (27 if group["gi"] % 4 == 0 else 3) * 4 * 3

def cases(group):
    menu = [[1, 1, 1], [3, 1, 2], [2, 2, 2]]
    tests = [list(t) for t in itertools.product([1, 2, 3], repeat=3)] if group["gi"] % 4 == 0 else menu
    for test in tests:
        for d in (2, 3, 4, 5):
            for family in ("lattice", "generic", "intlattice"):
                yield dict(train=group["train"], test=test, d=d, family=family, seed=group["seed"])


def _features(counts, d, family, seed, offset):
    out = []
    e = 0
    for si, c in enumerate(counts):
        rows = []
        for _ in range(c):
            if family == "intlattice":
                rows.append([float(((e + offset) * (j + 2) + j * j + si) % 4) + 1.0 for j in range(d)])
            elif family == "lattice":
                rows.append([float(((e + offset) * (j + 2) + j * j + si) % 4) + (1.0 if j % 2 == 0 else 0.5) for j in range(d)])
            else:
                rng = np.random.default_rng([seed, offset, e, d])
                v = np.round(rng.standard_normal(d) * 64) / 64
                v = v + np.sign(v + 1e-9) * 0.25
                rows.append(v.tolist())
            e += 1
        out.append(np.array(rows, float))
    return out


def _closed_form(train, test_vecs, alpha, mask=None):
    X_atom = np.vstack(train)
    sf = np.sqrt((X_atom ** 2).mean(axis=0).sum())
    Xs = np.vstack([t.mean(axis=0) / sf for t in train])
    A = Xs.T @ Xs + alpha * np.eye(Xs.shape[1])
    out = []
    for v in test_vecs:
        x = v / sf
        if mask is not None:
            x = x * mask
        q = float(x @ np.linalg.solve(A, x))
        out.append(1.0 / q if q > 0 else np.inf)
    return np.array(out), A


def check(case):
    from skmatter.metrics import componentwise_prediction_rigidity, local_prediction_rigidity

    r = R()
    d = case["d"]
    train = _features(case["train"], d, case["family"], case["seed"], 0)
    test = _features(case["test"], d, case["family"], case["seed"], 1000)
    as_int = case["family"] == "intlattice"  # integer-valued features handed over with an integer dtype
    give = (lambda arrs: [a.astype(np.int64) for a in arrs]) if as_int else (lambda arrs: [a.copy() for a in arrs])
    rows = np.vstack(train)
    lens = [len(t) for t in test]
    atoms = np.vstack(test)
    r.states = 0
    r.transitions = 0
    prev = None
    multi = 0
    for alpha in ALPHAS:
        ref, A = _closed_form(train, atoms, alpha)
        cnd = np.linalg.cond(A)
        if cnd > 1e13:
            r.count("ill_conditioned_alpha_skipped")
            prev = None
            continue
        rtol = max(1e-6, 1e3 * cnd * np.finfo(float).eps)  # 1/(x A^-1 x) is accurate to about cond * eps
        try:
            if len(rows) >= 2:
                # immediately before: the SAME environments (same alpha) grouped into other structures
                local_prediction_rigidity(give([rows[:1], rows[1:]]), give(test), alpha)
            LPR, rank_diff = local_prediction_rigidity(give(train), give(test), alpha)
        except Exception as e:
            return r.fail("crash:%s" % type(e).__name__, "LPR alpha=%g: %r" % (alpha, e))
        r.transitions += 1
        if len(LPR) != len(test) or [len(x) for x in LPR] != lens:
            return r.fail("lpr-not-one-entry-per-environment", "lengths %s, expected %s" % ([len(x) for x in LPR], lens))
        flat = np.concatenate([np.asarray(x, float).ravel() for x in LPR])
        r.states += flat.size
        if not np.all(np.isfinite(flat)) or flat.min() <= 0:
            return r.fail("lpr-not-strictly-positive", "%s" % flat.tolist())
        if np.abs(flat / ref - 1).max() > rtol:
            return r.fail("lpr-differs-from-closed-form", "alpha=%g: %s vs %s" % (alpha, flat.tolist(), ref.tolist()))
        if prev is not None and (flat < prev * (1 - 10 * rtol)).any():
            return r.fail("lpr-decreases-with-alpha", "alpha=%g" % alpha)
        prev = flat
        # rank difference
        sv = np.linalg.svd(A, compute_uv=False)
        tolr = sv.max() * d * np.finfo(float).eps
        if not ((sv > tolr / 1e3) & (sv < tolr * 1e3)).any():
            want = d - int((sv > tolr).sum())
            if int(rank_diff) != want:
                return r.fail("rank-difference-wrong", "alpha=%g: reported %s, d - rank = %d" % (alpha, rank_diff, want))
        # invariance under a common rescaling of all features
        for c in (0.5, 3.0, 2.0 ** -20, 2.0 ** 17):  # incl. features in very small / large units (exact powers of two)
            L2, _ = local_prediction_rigidity([t * c for t in train], [t * c for t in test], alpha * 1.0)
            r.transitions += 1
            f2 = np.concatenate([np.asarray(x, float).ravel() for x in L2])
            if np.abs(f2 / flat - 1).max() > 10 * rtol:
                return r.fail("lpr-not-scale-invariant", "alpha=%g, factor %g: max rel change %.3g" % (alpha, c, np.abs(f2 / flat - 1).max()))
        # component-wise variants: ALL compositions of d
        if alpha not in (1e-10, 1e-4, 1.0, 1e2):
            continue
        for comp in fam.compositions(d):
            try:
                if len(rows) >= 2 and len(comp) == 1:
                    componentwise_prediction_rigidity(give([rows[:1], rows[1:]]), give(test), alpha, np.array(comp))
                CPR, LCPR, rd2 = componentwise_prediction_rigidity(give(train), give(test), alpha, np.array(comp))
            except Exception as e:
                return r.fail("crash:%s" % type(e).__name__, "CPR alpha=%g comp=%s: %r" % (alpha, comp, e))
            r.transitions += 1
            CPR = np.asarray(CPR, float)
            if CPR.shape != (len(test), len(comp)) or len(LCPR) != len(test) or [np.asarray(x).shape for x in LCPR] != [(n, len(comp)) for n in lens]:
                return r.fail("cpr-shapes", "CPR %s LCPR %s comp %s" % (CPR.shape, [np.asarray(x).shape for x in LCPR], comp))
            Lflat = np.vstack([np.asarray(x, float) for x in LCPR])
            edges = np.cumsum([0] + comp)
            for ci in range(len(comp)):
                mask = np.zeros(d)
                mask[edges[ci]:edges[ci + 1]] = 1.0
                refL, _ = _closed_form(train, atoms, alpha, mask)
                means = np.vstack([t.mean(axis=0) for t in test])
                refC, _ = _closed_form(train, means, alpha, mask)
                r.states += Lflat.shape[0] + CPR.shape[0]
                if not (np.isfinite(refL).all() and np.isfinite(refC).all()):
                    r.count("zero_block_not_compared")
                    continue
                if not np.all(np.isfinite(Lflat[:, ci])) or Lflat[:, ci].min() <= 0 or CPR[:, ci].min() <= 0:
                    return r.fail("cpr-not-strictly-positive", "comp %s component %d" % (comp, ci))
                if np.abs(Lflat[:, ci] / refL - 1).max() > rtol:
                    return r.fail("lcpr-differs-from-closed-form", "alpha=%g comp=%s component %d: %s vs %s" % (alpha, comp, ci, Lflat[:, ci].tolist(), refL.tolist()))
                if np.abs(CPR[:, ci] / refC - 1).max() > rtol:
                    return r.fail("cpr-differs-from-closed-form", "alpha=%g comp=%s component %d: %s vs %s" % (alpha, comp, ci, CPR[:, ci].tolist(), refC.tolist()))
            if len(comp) == 1 and np.abs(Lflat[:, 0] / flat - 1).max() > 1e-9:
                return r.fail("single-component-lcpr-differs-from-lpr", "alpha=%g" % alpha)
            if len(comp) > 1:
                multi += 1
            start = 0
            for si, n in enumerate(lens):
                if n == 1 and np.abs(CPR[si] / Lflat[start] - 1).max() > 1e-9:
                    return r.fail("one-environment-cpr-differs-from-lcpr", "structure %d alpha=%g comp=%s" % (si, alpha, comp))
                start += n
            if int(rd2) != int(rank_diff):
                return r.fail("rank-difference-differs-between-functions", "%s vs %s" % (rd2, rank_diff))
    r.nontrivial = len(set(case["train"])) > 1 and len(set(case["test"])) > 1 and multi > 0
    r.outcome = [case["train"], case["test"], d, case["family"]]
    return r
