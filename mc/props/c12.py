"""C12 — kernel centring and normalisation equal centring and scaling in feature space.

E1 over explicit feature matrices Phi (lattices and generic, 4..7 samples x 2..4 features) and
test features Phi_t (1, < n, = n, > n rows) x weights in {None, uniform, ALL of {0,1,2}^n with
>= 2 non-zero (n = 4), generic} x (with_center, with_trace) all 4; sparse variant: EVERY active
set of size 1..3. Oracle: transform(Phi Phi^T) == Phi_c Phi_c^T / s and transform(Phi_t Phi^T) ==
Phi_tc Phi_c^T / s with Phi_c centred by the weighted training mean and s making the training
trace n; switching a flag off switches off exactly that operation; fit_transform == fit().
transform(); sparse: weighted column means of the transformed K_NM vanish and the centred
Nystrom kernel has trace n."""

import itertools

import numpy as np

from .. import fam
from ..core import R

ID = "C12"
DESIGN_REF = "DESIGN.md §4 C12"
EXPLORER = "E1 product-space"
RULE = (
    "cases = feature matrix x weights x 4 flag combinations (KernelNormalizer, with test sets of 1, n-1, n, n+2 rows; each also on a USED instance fitted before with the other weight form on another kernel of the same size) and "
    "feature matrix x active set (every subset of size 1..3) x weights x 4 flags (SparseKernelCenterer); non-trivial = "
    "non-uniform weights with a rectangular test kernel, or an active set of size >= 2; states = transformed kernels judged"
)
ASSUMPTIONS = [
    "kernels are exact Gram matrices of explicit features, so the feature-space result is computed directly",
    "closeness 1e-9 relative to the kernel scale; trace scaling judged when the centred trace exceeds 1e-9 of the raw trace",
]
DEGRADED = set()
FLAGS = list(itertools.product([True, False], repeat=2))


def _datas(tier, seed):
    out = []
    step = 243 if tier == "quick" else 27
    for i, X in enumerate(fam.lattice(4, 2, [0, 1, 2])):
        if i % step == 5:
            out.append(("L4x2", (np.array(X, float) + np.array([0.5, -1.0])).tolist()))
    for shp in [(4, 3), (5, 2), (7, 4)]:
        for X in fam.generic_list(shp[0], shp[1], seed, 2 if tier == "quick" else 10):
            out.append(("G%dx%d" % shp, (np.array(X) + 0.75).tolist()))
    # the same features at a tiny scale (kernel entries ~1e-12): an absolute cut-off in the code shows here
    out.append(("G5x2-tiny", ((np.array(fam.generic_list(5, 2, seed, 1)[0]) + 0.75) * 1e-6).tolist()))
    out.append(("G5x2-tiny9", ((np.array(fam.generic_list(5, 2, seed, 1)[0]) + 0.75) * 1e-9).tolist()))
    # features with a large common offset (2^10): kernel entries ~1e6 whose centred part is O(1) - a one-pass
    # E[k^2] - E[k]^2 style formula cancels catastrophically here, the two-pass definition does not
    out.append(("G5x2-off", (np.array(fam.generic_list(5, 2, seed, 1)[0]) + 0.75 + 1024.0).tolist()))
    out.append(("G7x4-off", (np.array(fam.generic_list(7, 4, seed, 1)[0]) + 0.75 + 1024.0).tolist()))
    # integer-valued features: the kernels are integer matrices and may be handed over with an integer dtype
    rng = np.random.default_rng([seed, 1212])
    out.append(("I5x3-int", rng.integers(-3, 4, size=(5, 3)).astype(float).tolist()))
    return out


def _weights(n):
    out = [None, [1.0] * n]
    if n == 4:
        out += [list(map(float, w)) for w in itertools.product([0, 1, 2], repeat=4) if sum(1 for x in w if x) >= 2]
    else:
        out += [[float((i * 2 + 1) % 3) for i in range(n)], [0.25 + 0.5 * (i % 2) + 0.125 * i for i in range(n)]]
    return out


def bounds(tier, seed):
    ds = _datas(tier, seed)
    return dict(
        data={l: sum(1 for a, _ in ds if a == l) for l in sorted({l for l, _ in ds})},
        weights="None, uniform, all of {0,1,2}^4 with >= 2 non-zero (4-sample data), 2 generic vectors otherwise",
        flags="all 4 (with_center, with_trace)",
        test_rows="1, n-1, n, n+2",
        active_sets="every subset of size 1..3 of the samples",
        seed=seed,
    )


def groups(tier, seed):
    out = []
    for l, X in _datas(tier, seed):
        out.append(dict(kind="dense", label=l, X=X))
        out.append(dict(kind="sparse", label=l, X=X))
    return out


def cases(group):
    X = group["X"]
    n = len(X)
    for w in _weights(n):
        for (wc, wt) in FLAGS:
            intk = group["label"].endswith("-int")
            if group["kind"] == "dense":
                if intk:
                    yield dict(kind="dense", X=X, w=w, with_center=wc, with_trace=wt, int_dtype=True)
                yield dict(kind="dense", X=X, w=w, with_center=wc, with_trace=wt)
                yield dict(kind="dense", X=X, w=w, with_center=wc, with_trace=wt, used=True)
            else:
                for size in (1, 2, 3):
                    for act in itertools.combinations(range(n), size):
                        yield dict(kind="sparse", X=X, w=w, with_center=wc, with_trace=wt, active=list(act))
                        if intk:
                            yield dict(kind="sparse", X=X, w=w, with_center=wc, with_trace=wt, active=list(act), int_dtype=True)
                        if size == 2 and act[0] == 0:
                            yield dict(kind="sparse", X=X, w=w, with_center=wc, with_trace=wt, active=list(act), used=True)


def _test_features(v, m):
    return np.array([[0.6 * np.sin(1.1 * i + 0.9 * j) + 0.3 * j - 0.2 for j in range(m)] for i in range(v)], float)


def check(case):
    from skmatter.preprocessing import KernelNormalizer, SparseKernelCenterer

    r = R()
    Phi = np.array(case["X"], float)
    n, m = Phi.shape
    w = case["w"]
    wc, wt = case["with_center"], case["with_trace"]
    wn = np.ones(n) / n if w is None else np.asarray(w, float) / np.sum(w)
    sw = None if w is None else np.array(w, float)
    r.states = 0
    if case["kind"] == "dense":
        K = Phi @ Phi.T
        mu = wn @ Phi if wc else np.zeros(m)
        Pc = Phi - mu
        Kc = Pc @ Pc.T
        s = np.trace(Kc) / n if wt else 1.0
        if wt and np.trace(Kc) < 1e-9 * max(np.trace(K), 1e-300):
            return r.skip("centred kernel has (numerically) zero trace")
        kscale = float(np.abs(K).max()) if not wt else max(1.0, float(np.abs(K).max()) / max(s, 1e-300))
        tol = 1e-9 * kscale
        kn = KernelNormalizer(with_center=wc, with_trace=wt)
        try:
            Kin = K.astype(np.int64) if case.get("int_dtype") else K
            Kbuf = Kin.copy()
            if case.get("used"):
                # a USED normaliser whose caller reuses its kernel buffer: fitted on another kernel held in the same
                # array object, which is then refilled in place
                Po = Phi[::-1] * 0.5 + 0.25
                Kbuf = np.ascontiguousarray(Po @ Po.T, dtype=float)
                kn.fit(Kbuf, sample_weight=None if sw is not None else np.arange(1.0, n + 1.0))
                if case.get("int_dtype"):
                    Kbuf = Kin.copy()
                else:
                    Kbuf[...] = Kin
            kn.fit(Kbuf, sample_weight=sw)
            Kt = np.asarray(kn.transform(Kin.copy()), float)
        except Exception as e:
            return r.fail("crash:%s" % type(e).__name__, repr(e))
        r.states += 1
        if np.abs(Kt - Kc / s).max() > tol:
            r.fail("train-kernel-not-feature-space-centred", "max diff %.3g (flags center=%s trace=%s)" % (np.abs(Kt - Kc / s).max(), wc, wt))
        if wt and abs(np.trace(Kt) - n) > 1e-8 * n:
            r.fail("training-trace-not-n", "trace %.10g" % np.trace(Kt))
        if not wt and abs(float(getattr(kn, "scale_", 1.0)) - 1.0) > 0:
            r.fail("trace-off-still-scales", "scale_ %r" % kn.scale_)
        kn2 = KernelNormalizer(with_center=wc, with_trace=wt)
        Kft = np.asarray(kn2.fit_transform(K.copy(), sample_weight=sw), float)
        if np.abs(Kft - Kt).max() > 1e-12 * kscale:
            r.fail("fit_transform-differs-from-fit-then-transform", "max diff %.3g" % np.abs(Kft - Kt).max())
        for v in sorted({1, n - 1, n, n + 2}):
            Pt = _test_features(v, m)
            Ktn = Pt @ Phi.T
            want = (Pt - mu) @ Pc.T / s
            try:
                got = np.asarray(kn.transform(Ktn.copy()), float)
            except Exception as e:
                r.fail("test-kernel-crash:%s" % type(e).__name__, "%d test rows: %r" % (v, e))
                continue
            r.states += 1
            if got.shape != want.shape or np.abs(got - want).max() > max(tol, 1e-9 * float(np.abs(want).max())):
                r.fail("test-kernel-not-feature-space-centred", "%d test rows: max diff %.3g" % (v, np.abs(got - want).max() if got.shape == want.shape else -1))
                break
        r.nontrivial = w is not None and len(set(w)) > 1
        r.outcome = np.round(Kt, 6).tolist()
        return r
    # ---- sparse
    act = case["active"]
    Knm = Phi @ Phi[act].T
    Kmm = Phi[act] @ Phi[act].T
    if np.linalg.matrix_rank(Kmm) < len(act):
        return r.skip("active-set kernel singular (pseudo-inverse cut ambiguous)")
    colmean = wn @ Knm if wc else np.zeros(len(act))
    Kc = Knm - colmean
    Khat = Kc @ np.linalg.pinv(Kmm) @ Kc.T
    if wt and np.trace(Khat) < 1e-9 * max(np.trace(Knm @ np.linalg.pinv(Kmm) @ Knm.T), 1e-300):
        return r.skip("centred Nystrom kernel has (numerically) zero trace")
    sc = SparseKernelCenterer(with_center=wc, with_trace=wt)
    try:
        Knm_in, Kmm_in = (Knm.astype(np.int64), Kmm.astype(np.int64)) if case.get("int_dtype") else (Knm, Kmm)
        bnm, bmm = Knm_in.copy(), Kmm_in.copy()
        if case.get("used"):
            # a USED centerer whose caller reuses its kernel buffers (refilled in place for the fit that is judged)
            Po = Phi[::-1] * 0.5 + 0.25
            bnm, bmm = np.ascontiguousarray(Po @ Po[act].T, dtype=float), np.ascontiguousarray(Po[act] @ Po[act].T, dtype=float)
            sc.fit(bnm, bmm, sample_weight=None if sw is not None else np.arange(1.0, n + 1.0))
            if case.get("int_dtype"):
                bnm, bmm = Knm_in.copy(), Kmm_in.copy()
            else:
                bnm[...] = Knm_in
                bmm[...] = Kmm_in
        sc.fit(bnm, bmm, sample_weight=sw)
        Kt = np.asarray(sc.transform(Knm_in.copy()), float)
    except Exception as e:
        return r.fail("crash:%s" % type(e).__name__, repr(e))
    r.states += 1
    kscale = float(np.abs(Knm).max()) if not wt else max(1.0, float(np.abs(Knm).max()) / max(float(np.sqrt(np.trace(Khat) / n)), 1e-300))
    if wc:
        cm = wn @ Kt
        if np.abs(cm).max() > 1e-9 * kscale / min(1.0, float(np.sqrt(np.trace(Khat) / n)) if wt else 1.0):
            r.fail("sparse-weighted-column-means-not-zero", "%s" % cm.tolist())
    else:
        s_ref = np.sqrt(np.trace(Khat) / n) if wt else 1.0
        if np.abs(Kt * s_ref - Knm).max() > 1e-9 * kscale:
            r.fail("sparse-centering-off-still-centres", "")
    tr = np.trace(Kt @ np.linalg.pinv(Kmm) @ Kt.T)
    if wt and abs(tr - n) > 1e-7 * n:
        r.fail("sparse-nystrom-trace-not-n", "trace %.10g" % tr)
    if not wt and np.abs(Kt - Kc).max() > 1e-9 * kscale:
        r.fail("sparse-trace-off-still-scales", "")
    Kft = np.asarray(SparseKernelCenterer(with_center=wc, with_trace=wt).fit_transform(Knm.copy(), Kmm.copy(), sample_weight=sw), float)
    if np.abs(Kft - Kt).max() > 1e-12 * kscale:
        r.fail("sparse-fit_transform-differs", "")
    # new rectangular block uses the training statistics
    Pt = _test_features(3, m)
    got = np.asarray(sc.transform(Pt @ Phi[act].T), float)
    s_ref = np.sqrt(np.trace(Khat) / n) if wt else 1.0
    if np.abs(got - (Pt @ Phi[act].T - colmean) / s_ref).max() > 1e-8 * kscale / min(1.0, s_ref):
        r.fail("sparse-test-block-not-using-training-statistics", "")
    r.states += 1
    r.nontrivial = len(act) >= 2
    r.outcome = np.round(Kt, 6).tolist()
    return r
