"""C08 — greedy selection is history independent (prefix, restart, warm start).

E2 (explicit-state exploration of operation histories): root = unfitted selector; operations
cold_fit(n), warm_fit(n' > current), set_threshold(unreachable). For every (selector kind,
data, configuration, initialisation) EVERY increasing schedule n1 < ... < n of warm-started
fits is replayed on a fresh estimator; after EVERY leg the concrete state (all instance
attributes) is compared with the state of a single cold fit with the same n — the abstract key
"n selections of this selector on this data" is only accepted as a merge after that
attribute-by-attribute comparison. Also: prefix property, FPS initialised with the cold prefix,
warm_start on a never-fitted selector is rejected."""

import numpy as np

from .. import fam, sel
from ..core import R

ID = "C08"
DESIGN_REF = "DESIGN.md §4 C08, §2.1 E2"
EXPLORER = "E2 history exploration: all increasing warm-start schedules, state merge verified on all attributes"
RULE = (
    "one case = one (kind, direction, data, configuration, initialisation, threshold variant, top n): all 2^(n-1) "
    "increasing schedules ending in n (n <= 5 quick, 6 thorough; bounded by rank / number of distinct items) are "
    "replayed, final legs also in the float / None form of n_to_select when it resolves to the same count; "
    "states = post-leg states compared with the cold fit, transitions = fit calls; non-trivial = at least one "
    "schedule with >= 2 warm starts was compared on all attributes (no tie before n)"
)
ASSUMPTIONS = [
    "ties are detected on the score vectors the cold run itself looked at (top two candidates within 1e-9 relative): equality is demanded only up to the first tie",
    "importance scores / residuals of the CUR family are compared with relative tolerance 1e-6 (ARPACK start vectors differ between calls), everything else with 1e-9",
    "CUR family only with recompute_every in {1, 0}, as the property states",
    "hyper-parameters, the progress-bar callable and first_score_ (only set while a threshold is configured) are not part of the compared state",
]
DEGRADED = set()

SKIP_ATTRS = (
    "n_to_select",
    "score_threshold",
    "score_threshold_type",
    "report_progress_",
    "first_score_",
    "progress_bar",
    "initialize",
)
LOOSE = dict(pi_=1e-6, X_current_=1e-6, y_current_=1e-6)


def _kinds():
    out = []
    for kind in ("FPS", "PCovFPS", "CUR", "PCovCUR"):
        for d in sel.DIRS:
            out.append((kind, d))
    out.append(("VoronoiFPS", "sample"))
    return out


def _configs(kind, tier):
    if kind == "FPS":
        return [dict()]
    if kind == "VoronoiFPS":
        return [dict(full_fraction=0.5), dict(full_fraction=1.0 / 128)]
    if kind == "PCovFPS":
        return [dict(mixing=0.5)] if tier == "quick" else [dict(mixing=0.0), dict(mixing=0.5), dict(mixing=0.9)]
    out = []
    for m in ([None] if kind == "CUR" else ([0.5] if tier == "quick" else [0.0, 0.5, 1.0])):
        for k in (1, 2):
            for re in (1, 0):
                c = dict(k=k, recompute_every=re)
                if m is not None:
                    c["mixing"] = m
                out.append(c)
    return out


def _datas(tier, seed):
    out = []
    shapes = [(5, 4), (4, 6), (6, 6), (7, 5)] if tier == "quick" else [(5, 4), (4, 6), (6, 6), (7, 5), (8, 7), (6, 9), (3, 3), (4, 3)]
    for shp in shapes:
        for X in fam.generic_list(shp[0], shp[1], seed, 3 if tier == "quick" else 12):
            out.append(("G%dx%d" % shp, X))
    step = 211 if tier == "quick" else 23
    for i, X in enumerate(fam.lattice(3, 3, [0, 1, 2])):
        if i % step == 3:
            out.append(("L3x3", X))
    for i, X in enumerate(fam.lattice(4, 3, [0, 1])):
        if i % step == 5:
            out.append(("L4x3", X))
    for i, X in enumerate(fam.lattice(3, 4, [0, 1])):
        if i % step == 7:
            out.append(("L3x4", X))
    out.append(("clustered", fam.clustered(2, 2, seed)))
    # the same generic data in very small / large units (exact powers of two): scores that are squared distances
    # scale with the unit squared, ratios and selections do not
    g = fam.generic_list(6, 6, seed, 1)[0]
    out.append(("U6x6-unit2^-17", (np.array(g, float) * 2.0 ** -17).tolist()))
    out.append(("U6x6-unit2^14", (np.array(g, float) * 2.0 ** 14).tolist()))
    return out


def bounds(tier, seed):
    return dict(
        kinds=["%s/%s" % kd for kd in _kinds()],
        configs={k: _configs(k, tier) for k in ("VoronoiFPS", "PCovFPS", "CUR", "PCovCUR")},
        data=sorted({l for l, _ in _datas(tier, seed)}),
        n_data=len(_datas(tier, seed)),
        top_n=5 if tier == "quick" else 6,
        schedules="all increasing schedules ending in n (2^(n-1)), every n <= top",
        threshold_variants=["none", "unreachable from the start", "unreachable, set before the last leg", "tight absolute (0.999 x smallest cold score)", "tight relative (0.999 x smallest cold ratio to the first score)"] + (["relative unreachable"] if tier == "thorough" else []),
        seed=seed,
    )


def groups(tier, seed):
    out = []
    for kind, d in _kinds():
        for label, X in _datas(tier, seed):
            for cfg in _configs(kind, tier):
                if "k" in cfg and cfg["k"] >= min(len(X), len(X[0])):
                    continue
                out.append(dict(kind=kind, dir=d, label=label, X=X, cfg=cfg, tier=tier))
    return out


def cases(group):
    kind, d, X, cfg, tier = group["kind"], group["dir"], group["X"], group["cfg"], group["tier"]
    N = sel.n_items(X, d)
    y = [float((i * 7 + 3) % 5 - 2) + 0.25 * i for i in range(len(X))] if sel.needs_y(kind) else None
    if kind in ("CUR", "PCovCUR"):
        inits = [None]
    elif N <= 4:
        inits = list(range(N))
    else:
        inits = [0, N - 1]
    if kind == "FPS":
        inits.append("random")
    variants = ["none", "from-start", "before-last", "tight-abs", "tight-rel"] + (["relative"] if tier == "thorough" else [])
    if group["label"].startswith("U"):
        variants = ["none", "tight-rel", "relative", "tight-abs"]
    for ii, init in enumerate(inits):
        for v in variants:
            if tier == "quick" and v.startswith("tight") and ii > 0:
                continue  # quick tier: tight thresholds with the first initialisation only
            yield dict(kind=kind, dir=d, X=X, y=y, cfg=cfg, init=init, thr=v, top=5 if tier == "quick" else 6)
    if d == "sample" and kind in ("FPS", "CUR"):
        yy = [float(i % 3) for i in range(len(X))]
        yield dict(kind=kind, dir=d, X=X, y=yy, cfg=cfg, init=inits[0], thr="none", top=5 if tier == "quick" else 6)


def _mk(kind, d, cfg, init, n, thr=None, ttype="absolute"):
    p = dict(cfg)
    p["n_to_select"] = n
    if init is not None:
        p["initialize"] = init
    if thr is not None:
        p["score_threshold"] = thr
        p["score_threshold_type"] = ttype
    return sel.make(kind, d, **p)


def _tie_step(scores, selected_before, n_pre):
    """First greedy step at which the top two unselected candidates were within rounding."""
    for c, v in enumerate(scores):
        v = np.asarray(v, float)
        picked = set(selected_before[: n_pre + c])
        cand = np.array([v[i] for i in range(len(v)) if i not in picked])
        if cand.size < 2:
            continue
        top = np.sort(cand)[-2:]
        if abs(top[1] - top[0]) <= 1e-9 * max(1.0, abs(top[1])):
            return n_pre + c
    return None


def _forms(n, N):
    out = [n]
    f = n / float(N)
    if int(N * f) == n and 0 < f <= 1:
        out.append(f)
    if N // 2 == n:
        out.append(None)
    return out


def check(case):
    r = R()
    kind, d, cfg, init = case["kind"], case["dir"], case["cfg"], case["init"]
    X = np.array(case["X"], float)
    y = None if case["y"] is None else np.array(case["y"], float)
    N = sel.n_items(X, d)
    n_pre = 0 if kind in ("CUR", "PCovCUR") else 1
    # bound n by what can be selected without exhausting candidates (rank / distinct items)
    if kind in ("CUR", "PCovCUR"):
        top = min(case["top"], N, int(np.linalg.matrix_rank(X)))
        if top <= cfg.get("k", 1):
            return r.skip("rank does not exceed k")
    else:
        P = X if d == "sample" else X.T
        top = min(case["top"], N, len({tuple(row) for row in P.tolist()}))
    if top < 2:
        return r.skip("fewer than 2 selectable items")

    # warm_start on a never-fitted selector must be rejected
    s0 = _mk(kind, d, cfg, init, 1 if n_pre else 1)
    _, exc0 = sel.fit_quiet(s0, X, y, warm_start=True)
    if not isinstance(exc0, ValueError):
        r.fail("warm-start-on-unfitted-not-rejected", repr(exc0))

    # cold fits for every n (the reference state for each abstract key)
    cold = {}
    tie = None
    cold_scores = None
    for n in range(1, top + 1):
        s = _mk(kind, d, cfg, init, n)
        rec = sel.ScoreRecorder(s) if n == top else None
        _, exc = sel.fit_quiet(s, X, y)
        if rec is not None and "score" in vars(s):
            del s.score
        if exc is not None:
            return r.fail("crash:%s" % type(exc).__name__, "cold fit n=%d: %r" % (n, exc))
        cold[n] = s
        if rec is not None and rec.ok:
            tie = _tie_step(rec.scores, [int(i) for i in s.selected_idx_], n_pre)
            cold_scores = rec.scores
    idx_top = [int(i) for i in cold[top].selected_idx_]
    if len(set(idx_top)) != len(idx_top):
        return r.skip("candidates exhausted before n (C01's domain)")
    pi_defined = {}
    if kind in ("CUR", "PCovCUR"):
        # judgeability: the score is only defined where the retained spectrum is separated
        for t in range(top + 1):
            if cfg.get("recompute_every", 1) == 0 and t > 0:
                pi_defined[t] = pi_defined[0]
                continue
            ref = sel.cur_reference(kind, d, X, y, idx_top[:t], cfg.get("k", 1), cfg.get("mixing"))
            pi_defined[t] = ref["gap_ok"]
            if not ref["gap_ok"] and t < top:
                tie = t if tie is None else min(tie, t)
    limit = top if tie is None else tie  # selections [0, limit) are tie-free
    r.states = 0
    r.transitions = top + 1

    # ---- prefix property
    for n in range(1, top):
        a = [int(i) for i in cold[n].selected_idx_]
        u = min(n, limit)
        if a[:u] != idx_top[:u]:
            r.fail("prefix-depends-on-request", "cold n=%d gives %s, cold n=%d gives %s (first tie %s)" % (n, a, top, idx_top, tie))
            break

    # ---- every increasing schedule, state compared after every leg
    thr = case["thr"]
    tight = None
    if thr in ("tight-abs", "tight-rel"):
        # a threshold just below every score of the cold run: never reached by the cold fit, so no chain may stop
        # only the steps at which the score is well defined (before the first tie / degenerate spectrum)
        if limit < 2:
            return r.skip("no well-defined score sequence for a tight threshold")
        top = limit
        ms = [float(np.max(v)) for v in (cold_scores or [])[: limit - n_pre] if np.size(v)]
        if len(ms) < 1 or min(ms) <= 1e-9 * max(ms) or not np.isfinite(ms).all():
            # a score that is zero up to rounding (e.g. 1e-34 for a sample with y = 0 and mixing = 0) is not a level a
            # threshold can be placed "just below"
            return r.skip("no positive score sequence for a tight threshold")
        tight = 0.999 * min(ms) if thr == "tight-abs" else 0.999 * min(m / ms[0] for m in ms)
    full_compares = 0
    for n in range(2, top + 1):
        for sched in fam.increasing_schedules(n, start_min=max(1, n_pre)):
            if len(sched) < 2:
                continue
            for last_form in _forms(sched[-1], N):
                s = None
                ok = True
                for li, nn in enumerate(sched):
                    form = last_form if li == len(sched) - 1 else nn
                    if li == 0:
                        if thr == "from-start":
                            s = _mk(kind, d, cfg, init, form, -1.0)
                        elif thr == "relative":
                            s = _mk(kind, d, cfg, init, form, -1.0, "relative")
                        elif thr == "tight-abs":
                            s = _mk(kind, d, cfg, init, form, tight)
                        elif thr == "tight-rel":
                            s = _mk(kind, d, cfg, init, form, tight, "relative")
                        else:
                            s = _mk(kind, d, cfg, init, form)
                    else:
                        s.n_to_select = form
                        if thr == "before-last" and li == len(sched) - 1:
                            s.score_threshold = -1.0
                        if thr == "none":
                            # an unrelated selector of the same class and configuration is fitted on other data of the
                            # same shape between the legs: the chain must continue from its OWN state
                            pp = dict(cfg)
                            if init is not None:
                                pp["initialize"] = init
                            sibling = sel.sibling_fit(kind, d, X, y, pp)  # noqa: F841 (kept alive)
                            r.transitions += 1
                    w, exc = sel.fit_quiet(s, X, y, warm_start=li > 0)
                    r.transitions += 1
                    if exc is not None:
                        r.fail("crash:%s" % type(exc).__name__, "schedule %s leg %d (n_to_select=%r): %r" % (sched, li, form, exc))
                        ok = False
                        break
                    if any("Score threshold" in m for m in w):
                        r.fail("unreachable-threshold-stopped-the-search", "schedule %s leg %d" % (sched, li))
                        ok = False
                        break
                    r.states += 1
                    try:  # read-only accessors between the fits of a chain must not matter
                        s.get_support(indices=True)
                        s.get_support()
                        if hasattr(s, "get_select_distance"):
                            s.get_select_distance()
                    except Exception as e:
                        r.fail("accessor-crash:%s" % type(e).__name__, "schedule %s leg %d: %r" % (sched, li, e))
                        ok = False
                        break
                    ref = cold[nn]
                    got = [int(i) for i in s.selected_idx_]
                    want = [int(i) for i in ref.selected_idx_]
                    u = min(nn, limit)
                    if got[:u] != want[:u] or len(got) != len(want):
                        r.fail("warm-chain-selection-differs", "schedule %s after leg %d: %s, cold fit n=%d: %s (first tie %s)" % (sched, li, got, nn, want, tie))
                        ok = False
                        break
                    if nn <= limit:
                        skip = SKIP_ATTRS if pi_defined.get(nn, True) else SKIP_ATTRS + ("pi_",)
                        diffs = sel.diff_states(s, ref, skip=skip, rtol=1e-9, loose=LOOSE)
                        if diffs:
                            r.fail("warm-chain-state-differs", "schedule %s after leg %d vs cold n=%d: %s" % (sched, li, nn, "; ".join(diffs)[:400]))
                            ok = False
                            break
                        if li >= 2:
                            full_compares += 1
                if not ok:
                    break
            if r.violations:
                break
        if r.violations:
            break

    # ---- FPS initialised with the already selected prefix reproduces the cold run
    if kind == "FPS" and not r.violations and init != "random":
        for j in range(2, top):
            if j > limit:
                break
            s = _mk(kind, d, cfg, idx_top[:j], top)
            _, exc = sel.fit_quiet(s, X, y)
            r.transitions += 1
            if exc is not None:
                r.fail("crash:%s" % type(exc).__name__, "initialize=%s: %r" % (idx_top[:j], exc))
                break
            got = [int(i) for i in s.selected_idx_]
            if got[:limit] != idx_top[:limit]:
                r.fail("restart-from-prefix-differs", "initialize=%s gives %s, cold run %s" % (idx_top[:j], got, idx_top))
                break
            if limit == top:
                diffs = sel.diff_states(s, cold[top], skip=SKIP_ATTRS, rtol=1e-9, loose=LOOSE)
                if diffs:
                    r.fail("restart-from-prefix-state-differs", "initialize=%s: %s" % (idx_top[:j], "; ".join(diffs)[:400]))
                    break
            r.states += 1
    r.nontrivial = full_compares > 0
    r.count("schedules_with_two_warm_starts_fully_compared", full_compares)
    if tie is not None:
        r.count("cases_with_tie_before_n")
    r.outcome = [kind, d, idx_top]
    return r
