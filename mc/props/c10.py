"""C10 — Ridge2FoldCV equals explicit two-fold cross-validated regularised least squares.

E1 over data (generic tall / wide, planted rank deficiency, duplicated columns, scaled columns)
x y (1, 2 targets, noisy) x alpha grid (absolute 1e-12..1e3, relative {0,1e-6,1e-2,.5}) x
method in {tikhonov, cutoff} x scorer in {None / neg-MSE, neg-RMSE, r2} x folds (None x shuffle
{F, T x 3 seeds}; EVERY balanced 2-partition of the n = 6 samples as an explicit (train, test)
list; KFold objects) x n_jobs. Oracle: explicit per-fold solution from an independent SVD
(numerical-rank directions excluded) scored with sklearn's metric functions called as
metric(y_true = fold targets, y_pred = prediction); cv_values_, alpha_ (first maximiser),
best_score_, coef_ (full-data solution, bounded), predict == X coef_^T."""

import itertools

import numpy as np

from .. import fam
from ..core import R

ID = "C10"
DESIGN_REF = "DESIGN.md §4 C10"
EXPLORER = "E1 product-space incl. every balanced 2-fold partition"
RULE = (
    "cases = data x y x alpha grid x alpha_type x method x scorer x fold assignment; fold assignments: all 20 ordered balanced "
    "2-partitions of 6 samples as explicit lists, KFold with shuffle off / on x 3 seeds, a KFold object; non-trivial = the grid "
    "has at least two distinct cross-validation values and the chosen alpha is not forced; states = per-alpha CV values + final "
    "coefficients compared with the explicit computation"
)
ASSUMPTIONS = [
    "relative alphas are scaled by the largest singular value of the two fold matrices (the implementation's documented choice: 'relative to the largest eigenvalue')",
    "numerical rank must be unambiguous: singular values of each fold and of X are either > 1e-7*s_max or < 1e-12*s_max, otherwise the case is skipped",
    "cut-off alphas within a relative 1e-6 of a singular value are unjudgeable (skipped)",
    "cv values within 1e-9 relative are ties: any of the tied alphas may be chosen",
]
DEGRADED = set()

ABS_GRID = [1e-12, 1e-6, 1e-3, 1e-1, 1.0, 1e3]
REL_GRID = [0.0, 1e-6, 1e-2, 0.5]
SCORERS = [None, "neg_root_mean_squared_error", "r2"]


def _datas(tier, seed):
    out = []
    k = 2 if tier == "quick" else 8
    for j in range(k):
        out.append(("tall6x3", fam.generic(6, 3, seed, j)))
        out.append(("wide6x8", fam.generic(6, 8, seed, j)))
        out.append(("sq6x6", fam.generic(6, 6, seed, j)))
        out.append(("rank2_6x4", fam.generic(6, 4, seed, j, kind="lowrank2")))
        X = np.array(fam.generic(6, 3, seed, j + 20), float)
        out.append(("dupcol6x4", np.hstack([X, X[:, :1]]).tolist()))
        out.append(("scaled6x3", (X * np.array([1e2, 1.0, 1e-2])).tolist()))
        out.append(("tall8x4", fam.generic(8, 4, seed, j)))
        rng = np.random.default_rng([seed, 1010, j])
        out.append(("int6x3", rng.integers(-4, 5, size=(6, 3)).astype(float).tolist()))
        out.append(("rank2_6x4_x100", (np.array(fam.generic(6, 4, seed, j, kind="lowrank2")) * 100.0).tolist()))
        out.append(("dupcol6x4_x1e-3", (np.hstack([X, X[:, :1]]) * 1e-3).tolist()))
    return [(l, X) for l, X in out if X is not None]


def _ys(n, seed, X):
    X = np.asarray(X, float)
    w = np.array([1.0, -0.5, 0.25, 2.0, -1.0, 0.5, 0.75, -0.25])[: X.shape[1]]
    noise = np.array(fam.generic_vec(n, seed, 3), float) * 0.1
    y1 = X @ w + noise
    Y2 = np.stack([y1, np.array(fam.generic_vec(n, seed, 5), float)], axis=1)
    return [y1.tolist(), Y2.tolist()]


def _folds(n, tier):
    out = [dict(kind="kfold", shuffle=False, seed=None)]
    for s in (0, 1, 2):
        out.append(dict(kind="kfold", shuffle=True, seed=s))
    out.append(dict(kind="kfold-object"))
    if n == 6:
        for a in itertools.combinations(range(6), 3):
            b = [i for i in range(6) if i not in a]
            out.append(dict(kind="explicit", train=list(a), test=b))
        # explicit folds need not cover every sample: 3 + 2 of the 6 samples (one left out)
        for i, a in enumerate(itertools.combinations(range(6), 3)):
            rest = [j for j in range(6) if j not in a]
            for b in itertools.combinations(rest, 2):
                if tier == "quick" and (i + sum(b)) % 4:
                    continue
                out.append(dict(kind="explicit", train=list(a), test=list(b)))
                out.append(dict(kind="explicit", train=list(b) + [a[0]], test=list(a[1:])))
    return out


def bounds(tier, seed):
    ds = _datas(tier, seed)
    return dict(
        data={l: sum(1 for a, _ in ds if a == l) for l in sorted({l for l, _ in ds})},
        abs_grid=ABS_GRID,
        rel_grid=REL_GRID,
        methods=["tikhonov", "cutoff"],
        scorers=["neg_mean_squared_error (None)", "neg_root_mean_squared_error", "r2"],
        folds="KFold shuffle off / on x seeds {0,1,2}; KFold object; all 20 ordered balanced partitions of 6 samples",
        n_jobs="None; 2 for the unshuffled KFold cases",
        seed=seed,
    )


def _big(spec):
    n, m, sd = spec[:3]
    rng = np.random.default_rng([int(sd), n, m, 1010])
    if len(spec) > 3 and spec[3] == "int":
        # integer-valued columns of very different scale (counts 0..6 next to a population ~1e5): cond ~ 1e5, every
        # direction well above the numerical-rank cut n * eps of double precision
        X = rng.integers(0, 7, size=(n, m)).astype(float)
        X[:, 0] = rng.integers(90000, 110000, size=n)
        return X
    return np.round(rng.standard_normal((n, m)) * (0.7 ** np.arange(m)) * 256) / 256


def groups(tier, seed):
    out = [dict(label=l, X=X, seed=seed, tier=tier) for l, X in _datas(tier, seed)]
    # the whole problem in small / large units (X and y times the same power of two): every reported quantity has a
    # known scaling law, the reference is recomputed on the scaled data
    for l, X in _datas(tier, seed):
        if l in ("tall6x3", "wide6x8", "rank2_6x4"):
            for u, tag in ((2.0 ** -13, "unit2^-13"), (2.0 ** 17, "unit2^17")):
                out.append(dict(label=l + "_" + tag, X=X, seed=seed, tier=tier, unit=u))
    # many rows (size-dependent code paths): 1200 x 4, and 5 x 1100 (wide)
    out.append(dict(label="big1200x4", big=[1200, 4, seed], seed=seed, tier=tier))
    out.append(dict(label="big6x1100", big=[6, 1100, seed], seed=seed, tier=tier))
    out.append(dict(label="bigint1200x4", big=[1200, 4, seed, "int"], seed=seed, tier=tier))
    return out


def cases(group):
    if "big" in group:
        n, m, sd = group["big"][:3]
        Xb = _big(group["big"])
        isint = len(group["big"]) > 3
        for y in _ys(n, sd, Xb[:, :8])[:2]:
            for atype, grid in (("absolute", ABS_GRID), ("relative", REL_GRID)):
                for method in ("tikhonov", "cutoff"):
                    for scoring in SCORERS:
                        for f in (dict(kind="kfold", shuffle=False, seed=None), dict(kind="kfold", shuffle=True, seed=1)):
                            yield dict(big=group["big"], y=y, alphas=grid, alpha_type=atype, method=method, scoring=scoring, fold=f, n_jobs=None, int_dtype=isint)
        return
    X = group["X"]
    n = len(X)
    if "unit" in group:
        for y in _ys(n, group["seed"], X):
            for atype, grid in (("absolute", ABS_GRID), ("relative", REL_GRID)):
                for method in ("tikhonov", "cutoff"):
                    for scoring in SCORERS:
                        for f in _folds(n, "quick")[:8]:
                            yield dict(X=X, y=y, alphas=grid, alpha_type=atype, method=method, scoring=scoring, fold=f, n_jobs=None, unit=group["unit"])
        return
    for y in _ys(n, group["seed"], X):
        for atype, grid in (("absolute", ABS_GRID), ("relative", REL_GRID)):
            for method in ("tikhonov", "cutoff"):
                for scoring in SCORERS:
                    for f in _folds(n, group["tier"]):
                        yield dict(X=X, y=y, alphas=grid, alpha_type=atype, method=method, scoring=scoring, fold=f, n_jobs=None)
                    yield dict(X=X, y=y, alphas=grid, alpha_type=atype, method=method, scoring=scoring, fold=dict(kind="kfold", shuffle=False, seed=None), n_jobs=2)
                    yield dict(X=X, y=y, alphas=grid, alpha_type=atype, method=method, scoring=scoring, fold=dict(kind="kfold", shuffle=True, seed=1), n_jobs=None, used=True)
                    if group["label"].startswith("int"):
                        yield dict(X=X, y=y, alphas=grid, alpha_type=atype, method=method, scoring=scoring, fold=dict(kind="kfold", shuffle=False, seed=None), n_jobs=None, int_dtype=True)


def _rank_ok(s):
    if s.size == 0 or s[0] <= 0:
        return 0, False
    rel = s / s[0]
    grey = (rel < 1e-7) & (rel > 1e-12)
    return int((rel >= 1e-7).sum()), not bool(grey.any())


def _solve(U, s, Vt, rank, y, alpha, method):
    """Explicit regularised least squares from an SVD; returns (W (m x p), judgeable)."""
    Uy = U[:, :rank].T @ y
    sr = s[:rank]
    if method == "tikhonov":
        f = sr / (sr ** 2 + alpha)
        if not np.all(np.isfinite(f)):
            return None, False
        return Vt[:rank].T @ (f[:, None] * Uy), True
    near = np.abs(sr - alpha) <= 1e-6 * max(s[0], alpha)
    if near.any():
        return None, False
    keep = sr > alpha
    f = np.where(keep, 1.0 / sr, 0.0)
    return Vt[:rank].T @ (f[:, None] * Uy), True


def _metric(scoring, y_true, y_pred):
    from sklearn.metrics import mean_squared_error, r2_score

    if scoring is None:
        return -mean_squared_error(y_true, y_pred)
    if scoring == "neg_root_mean_squared_error":
        yt = y_true.reshape(len(y_true), -1)
        yp = y_pred.reshape(len(y_pred), -1)
        return -float(np.mean(np.sqrt(((yt - yp) ** 2).mean(axis=0))))
    return r2_score(y_true, y_pred)


def check(case):
    import warnings

    from sklearn.model_selection import KFold

    from skmatter.linear_model import Ridge2FoldCV

    r = R()
    X = _big(case["big"]) if "big" in case else np.array(case["X"], float)
    y = np.array(case["y"], float)
    if case.get("unit"):
        X = X * case["unit"]
        y = y * case["unit"]
    n, m = X.shape
    X_fit = X.astype(np.int64) if case.get("int_dtype") else X  # integer-valued data handed over with an integer dtype
    alphas = np.array(case["alphas"], float)
    f = case["fold"]
    if f["kind"] == "kfold":
        cv, shuffle, seed = None, f["shuffle"], f["seed"]
        i1, i2 = next(KFold(n_splits=2, shuffle=shuffle, random_state=seed).split(X))
    elif f["kind"] == "kfold-object":
        cv, shuffle, seed = KFold(n_splits=2, shuffle=True, random_state=7), True, None
        i1, i2 = next(KFold(n_splits=2, shuffle=True, random_state=7).split(X))
    else:
        cv, shuffle, seed = [(np.array(f["train"]), np.array(f["test"]))], True, None
        i1, i2 = np.array(f["train"]), np.array(f["test"])
    model = Ridge2FoldCV(
        alphas=alphas.copy(), alpha_type=case["alpha_type"], regularization_method=case["method"], cv=cv,
        scoring=case["scoring"], random_state=seed, shuffle=shuffle, n_jobs=case["n_jobs"],
    )
    with warnings.catch_warnings():
        warnings.simplefilter("ignore")
        try:
            if case.get("used") and not case.get("int_dtype"):
                # a USED estimator whose caller reuses its arrays: fitted on other data of the same shape held in the
                # caller's buffers, which are refilled in place for the fit that is judged
                bX, by = np.ascontiguousarray(X[::-1, ::-1] * 0.5 + 0.25, dtype=float), np.ascontiguousarray(y[::-1] * -1.5 + 0.5, dtype=float)
                model.fit(bX, by)
                bX[...] = X
                by[...] = y
                model.fit(bX, by)
            else:
                model.fit(X_fit.copy(), y.copy())
        except Exception as e:
            return r.fail("crash:%s" % type(e).__name__, repr(e))
    # ---- reference
    Y2 = y.reshape(n, -1)
    X1, X2, y1, y2 = X[i1], X[i2], Y2[i1], Y2[i2]
    U1, s1, V1 = np.linalg.svd(X1, full_matrices=False)
    U2, s2, V2 = np.linalg.svd(X2, full_matrices=False)
    U, s, Vt = np.linalg.svd(X, full_matrices=False)
    r1, ok1 = _rank_ok(s1)
    r2_, ok2 = _rank_ok(s2)
    rk, ok = _rank_ok(s)
    if not (ok1 and ok2 and ok):
        return r.skip("numerical rank ambiguous")
    scale = max(s1[0], s2[0]) if case["alpha_type"] == "relative" else 1.0
    cvs = []
    for a in alphas:
        W1, j1 = _solve(U1, s1, V1, r1, y1, a * scale, case["method"])
        W2, j2 = _solve(U2, s2, V2, r2_, y2, a * scale, case["method"])
        if not (j1 and j2):
            return r.skip("cut-off alpha too close to a singular value")
        p2 = X2 @ W1
        p1 = X1 @ W2
        yt1, yt2 = (y1, y2) if y.ndim > 1 else (y1.ravel(), y2.ravel())
        pp1, pp2 = (p1, p2) if y.ndim > 1 else (p1.ravel(), p2.ravel())
        cvs.append((_metric(case["scoring"], yt2, pp2) + _metric(case["scoring"], yt1, pp1)) / 2.0)
    cvs = np.array(cvs)
    got = np.asarray(model.cv_values_, float)
    r.states = len(alphas) + 1
    ys = float(np.abs(y).max()) if case.get("unit") else 1.0  # scaled problems: the score's own unit
    cv_unit = 1.0 if case["scoring"] == "r2" else (ys if case["scoring"] == "neg_root_mean_squared_error" else ys * ys)
    tol = 1e-7 * np.maximum(cv_unit, np.abs(cvs))
    if got.shape != cvs.shape or (np.abs(got - cvs) > tol).any():
        return r.fail("cv-values-differ-from-explicit-two-fold-cv", "reported %s, explicit %s (scoring %s, %s %s)" % (got.tolist(), cvs.tolist(), case["scoring"], case["alpha_type"], case["method"]))
    best = cvs.max()
    tied = [i for i in range(len(alphas)) if cvs[i] >= best - 1e-9 * max(cv_unit, abs(best))]
    a_rep = float(model.alpha_)
    idx = [i for i in range(len(alphas)) if alphas[i] == a_rep]
    if not idx or idx[0] not in tied:
        return r.fail("alpha-not-best-grid-value", "alpha_ %r, best grid values %s" % (a_rep, [float(alphas[i]) for i in tied]))
    if len(tied) == 1 and idx[0] != tied[0]:
        return r.fail("alpha-not-first-maximiser", "")
    if abs(float(model.best_score_) - best) > 1e-7 * max(cv_unit, abs(best)):
        return r.fail("best-score-wrong", "%r vs %r" % (model.best_score_, best))
    Wf, jf = _solve(U, s, Vt, rk, Y2, alphas[idx[0]] * scale, case["method"])
    if not jf:
        return r.skip("cut-off alpha too close to a singular value of X")
    coef = np.asarray(model.coef_, float)
    want = Wf.T if y.ndim > 1 else Wf.T.ravel()
    cscale = max(1.0, float(np.abs(want).max()))
    if coef.shape != want.shape or not np.all(np.isfinite(coef)) or np.abs(coef - want).max() > 1e-6 * cscale * max(1.0, s[0] / s[rk - 1]):
        return r.fail("coef-differs-from-full-data-solution", "max |coef| %.3g, explicit solution max %.3g, max diff %.3g (rank %d of %d)" % (np.abs(coef).max(), np.abs(want).max(), np.abs(coef - want).max() if coef.shape == want.shape else -1, rk, min(n, m)))
    Xn = np.array([[0.3 * ((i + j) % 4) - 0.5 for j in range(m)] for i in range(3)], float)
    pred = np.asarray(model.predict(Xn), float)
    if np.abs(pred - Xn @ coef.T).max() > 1e-9 * max(1.0, np.abs(pred).max()):
        return r.fail("predict-not-X-coef", "")
    r.nontrivial = len({round(float(c), 9) for c in cvs}) >= 2
    r.outcome = [float(a_rep), np.round(cvs, 8).tolist()]
    return r
