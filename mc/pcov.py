"""Shared pieces for the PCovR properties (C03, C04, C14): data alphabets, regressor
catalogue, and the independent reference model (modified Gram matrix, its spectrum, spectral
projectors)."""

import itertools

import numpy as np

from . import fam

REGRESSORS = ["default", "ridge1e-3", "linreg", "pre+W", "pre-W", "linreg-fitted-elsewhere"]


def center(X):
    X = np.asarray(X, float)
    return X - X.mean(axis=0)


def other_data(X, Y):
    """Deterministic OTHER data of the same shape (for pre-fitted regressors / used estimators)."""
    X = np.asarray(X, float)
    Y = np.asarray(Y, float)
    Xo = center(X[::-1, ::-1] * 0.75 + 0.5)
    unit = float(np.abs(Y).max()) if Y.size else 0.0  # the ramp is in Y's units
    unit = 2.0 ** np.floor(np.log2(unit)) if unit > 0 else 1.0
    Yo = Y[::-1] * -0.5 + 0.125 * unit * np.arange(len(Y)).reshape((-1,) + (1,) * (Y.ndim - 1))
    return Xo, Yo - Yo.mean(axis=0)


def make_regressor(spec, X=None, Y=None):
    from sklearn.linear_model import LinearRegression, Ridge

    if spec == "linreg-fitted-elsewhere":
        # a regressor the user fitted on OTHER data: PCovR must use it as it is
        Xo, Yo = other_data(X, Y)
        return LinearRegression(fit_intercept=False).fit(Xo, Yo)
    if spec == "default":
        return None
    if spec == "ridge1e-3":
        return Ridge(alpha=1e-3, fit_intercept=False, tol=1e-12)
    if spec == "linreg":
        return LinearRegression(fit_intercept=False)
    if spec.startswith("pre"):
        return "precomputed"
    raise ValueError(spec)


def reference_W(spec, X, Y):
    """Independent regression weights for the regressor `spec` (no sklearn)."""
    X = np.asarray(X, float)
    if spec == "linreg-fitted-elsewhere":
        Xo, Yo = other_data(X, Y)
        return np.linalg.lstsq(Xo, Yo.reshape(Xo.shape[0], -1), rcond=None)[0]
    Y = np.asarray(Y, float).reshape(X.shape[0], -1)
    U, s, Vt = np.linalg.svd(X, full_matrices=False)
    if spec in ("default", "ridge1e-3", "pre+W", "pre-W"):
        a = 1e-6 if spec == "default" else 1e-3
        f = s / (s * s + a)
        return Vt.T @ (f[:, None] * (U.T @ Y))
    # exact least squares, minimum norm
    keep = s > 1e-10 * max(s[0], 1e-300) if s.size else s > 0
    f = np.where(keep, 1.0 / np.where(keep, s, 1.0), 0.0)
    return Vt.T @ (f[:, None] * (U.T @ Y))


def fit_pcovr(X, Y, mixing, k, spec, space, solver, prefit=False, regressor_obj=None, int_dtype=False, y_int=False):
    """Fit the real PCovR. Returns (estimator, exception). prefit: the estimator is a USED one
    (fitted before on other data of the same shape)."""
    import warnings

    from skmatter.decomposition import PCovR

    reg = regressor_obj if regressor_obj is not None else make_regressor(spec, X, Y)
    est = PCovR(mixing=mixing, n_components=k, regressor=reg, space=space, svd_solver=solver, random_state=0)
    with warnings.catch_warnings():
        warnings.simplefilter("ignore")
        try:
            bufX = bufY = None
            if prefit:
                # a USED estimator whose caller REUSES its arrays: fitted on other data of the same shape held in the
                # caller's buffers, which are then refilled in place with the data of this case and passed again
                Xo = center(np.asarray(X, float)[::-1, ::-1] * 0.6 + 0.25)
                Yo = np.asarray(Y, float)[::-1] * -0.7
                bufX = np.ascontiguousarray(Xo, dtype=float).copy()
                if spec.startswith("pre"):
                    Wo = reference_W(spec, Xo, Yo)
                    bufY = np.ascontiguousarray(Xo @ Wo, dtype=float).copy()
                    est.fit(bufX, bufY, W=Wo if spec == "pre+W" else None)
                else:
                    bufY = np.ascontiguousarray(Yo, dtype=float).copy()
                    est.fit(bufX, bufY)
            if int_dtype:
                X = np.asarray(X).astype(np.int64)  # integer-valued data handed over with an integer dtype
                bufX = None
            if spec.startswith("pre"):
                W = reference_W(spec, X, Y)
                Yfit = np.asarray(X) @ W
            else:
                W, Yfit = None, np.asarray(Y, float)
            if y_int and not spec.startswith("pre"):
                Yfit = np.asarray(Y).astype(np.int64)  # integer-valued targets handed over with an integer dtype
                bufY = None
            if bufX is not None and bufY is not None and bufY.shape == Yfit.shape:
                bufX[...] = np.asarray(X, float)
                bufY[...] = Yfit
                Xp, Yp = bufX, bufY
            else:
                Xp, Yp = X, Yfit
            if spec == "pre+W":
                est.fit(Xp, Yp, W=W)
            else:
                est.fit(Xp, Yp)
        except Exception as e:
            return est, e
    return est, None


def fit_targets(spec, X, Y):
    """The Y the estimator was actually fitted on (precomputed: the regressed targets)."""
    if spec.startswith("pre"):
        W = reference_W(spec, X, Y)
        return np.asarray(X, float) @ W
    return Y


class Ref:
    """Reference model for one (X, Y, mixing, regressor)."""

    def __init__(self, X, Y, mixing, spec):
        X = np.asarray(X, float)
        self.X = X
        self.Yfit = np.asarray(fit_targets(spec, X, Y), float).reshape(X.shape[0], -1)
        W = reference_W(spec, X, Y)
        self.Yhat = X @ W
        self.W = W
        self.K = mixing * (X @ X.T) + (1.0 - mixing) * (self.Yhat @ self.Yhat.T)
        w, V = np.linalg.eigh((self.K + self.K.T) / 2.0)
        self.lam = w[::-1].copy()
        self.V = V[:, ::-1].copy()
        self.lam1 = max(float(self.lam[0]), 1e-300)
        sx = np.linalg.svd(X, compute_uv=False)
        nz = sx[sx > 1e-10 * max(sx[0], 1e-300)] if sx.size else sx
        self.condX = float(nz[0] / nz[-1]) if nz.size else 1.0
        self.rankX = int(nz.size)
        # the implementation's zero cut is ABSOLUTE (tol = rcond = 1e-12 on eigenvalues): an eigenvalue of
        # X^T X within two decades of it is neither clearly kept nor clearly dropped
        self.grey_abs = bool(((sx ** 2 > 1e-14) & (sx ** 2 < 1e-10)).any())

    def judgeable(self, k, gap=1e-6):
        """Gap rule + no eigenvalue in the grey zone around the implementation's zero cut."""
        lam = self.lam
        if self.grey_abs or ((lam[:k] > 1e-14) & (lam[:k] < 1e-10)).any():
            return False  # within two decades of the documented absolute cut
        rel = lam[:k] / self.lam1
        if ((rel < 1e-9) & (lam[:k] > 1e-13)).any():
            return False  # retained eigenvalue neither clearly positive nor clearly zero
        nxt = lam[k] if k < lam.size else 0.0
        if lam[k - 1] / self.lam1 < 1e-9:
            return True  # everything non-zero is retained; zero components are dropped
        return (lam[k - 1] - nxt) / self.lam1 > gap

    def kept(self, k):
        # the implementation drops eigenvalues below an ABSOLUTE 1e-12; judgeable() excludes the grey zone
        return [i for i in range(k) if self.lam[i] / self.lam1 >= 1e-9 and self.lam[i] > 1e-13]

    def Kk(self, k):
        idx = self.kept(k)
        return (self.V[:, idx] * self.lam[idx]) @ self.V[:, idx].T

    def Pk(self, k):
        idx = self.kept(k)
        return self.V[:, idx] @ self.V[:, idx].T

    def objective(self, P, mixing):
        """mixing*||X - P X||^2 + (1-mixing)*||Yhat - P Yhat||^2 for a sample-space projector P."""
        RX = self.X - P @ self.X
        RY = self.Yhat - P @ self.Yhat
        return mixing * float((RX * RX).sum()) + (1.0 - mixing) * float((RY * RY).sum())

    def optimum(self, k):
        return float(self.lam[k:].clip(min=0).sum()) if k < self.lam.size else 0.0


def projector_of(T, rtol=1e-9):
    """Orthogonal projector onto the column span of T."""
    T = np.asarray(T, float)
    U, s, _ = np.linalg.svd(T, full_matrices=False)
    if s.size == 0 or s[0] <= 0:
        return np.zeros((T.shape[0], T.shape[0]))
    U = U[:, s > rtol * s[0]]
    return U @ U.T


# --------------------------------------------------------------------------------------
# data alphabets


def y_catalogue(n, p):
    """Fixed centred targets with p columns for n samples."""
    cols = [
        [float((i * 7 + 3) % 5) for i in range(n)],
        [float(i * i) for i in range(n)],
        [float((i * 3 + 1) % 4) - 0.5 * i for i in range(n)],
    ]
    Y = np.array(cols[:p], float).T
    Y = Y - Y.mean(axis=0)
    return Y.tolist()


def pcovr_datas(tier, seed, lattice_steps=None, generic_per_shape=None):
    """(label, X centred, [Y1, Y2, ...]) triples."""
    out = []
    steps = lattice_steps or (dict(L4x2=41, L3x3=83, L2x4=83) if tier == "quick" else dict(L4x2=3, L3x3=7, L2x4=7))
    for (n, m) in [(4, 2), (3, 3), (2, 4)]:
        label = "L%dx%d" % (n, m)
        for i, X in enumerate(fam.lattice(n, m, [0, 1, 2])):
            if i % steps[label] != 1:
                continue
            Xc = center(X)
            if np.abs(Xc).max() < 1e-12:
                continue
            out.append((label, Xc.tolist(), [y_catalogue(n, 1), y_catalogue(n, 2)]))
    per = generic_per_shape or (2 if tier == "quick" else 12)
    for (n, m) in [(5, 3), (3, 5), (4, 4), (6, 4), (4, 6), (9, 6)]:
        for j, X in enumerate(fam.generic_list(n, m, seed, per, kind="cdecay")):
            Ys = []
            for p in (1, 2, 3):
                Y = np.array(fam.generic_vec(n, seed, j, p), float)
                Ys.append((Y - Y.mean(axis=0)).tolist())
            out.append(("G%dx%d" % (n, m), X, Ys))
    # integer-valued, exactly centred data that is also passed with an integer dtype (label "I...")
    for j, base in enumerate([[[3, -1, 0], [-2, 2, 1], [1, -3, 2], [-2, 2, -3]], [[2, 1, -1, 0], [-1, -2, 3, 1], [-1, 1, -2, -1]],
                              [[4, -2], [-1, 3], [-3, 0], [2, -4], [-2, 3]]]):
        Xi = np.array(base, float)
        n = len(Xi)
        Yi = np.array([[float((i * 5 + 1) % 4) - 1.5 + 0.25 * i for i in range(n)], [float(i * i % 3) for i in range(n)]]).T
        out.append(("I%dx%d" % Xi.shape, Xi.tolist(), [(Yi - Yi.mean(axis=0)).tolist()]))
    # planted low rank
    for (n, m, rk) in [(6, 4, 2), (4, 6, 2), (5, 5, 3)]:
        for j in range(1 if tier == "quick" else 6):
            X = fam.generic(n, m, seed, j, kind="lowrank%d" % rk)
            Y = np.array(fam.generic_vec(n, seed, j, 2), float)
            out.append(("R%dx%dr%d" % (n, m, rk), X, [(Y - Y.mean(axis=0)).tolist()]))
    # the same generic data in small units (X and Y * 2^-10, so the retained spectrum keeps its dynamic range):
    # every non-zero eigenvalue of X^T X lies between the documented absolute cut (tol = 1e-12) and 1e-5, so a
    # cut applied to the wrong power of the spectrum, or an absolute floor in one route only, shows
    seen = set()
    for l, X, Ys in list(out):
        if l in ("G6x4", "G4x6", "G4x4", "R6x4r2") and (tier == "thorough" or l not in seen):
            seen.add(l)
            out.append(("S" + l, (np.array(X, float) * 2.0 ** -10).tolist(), [(np.array(Y, float) * 2.0 ** -10).tolist() for Y in Ys[:2]]))
    return out
