"""Shared pieces for the selector properties (C01, C02, C06, C07, C08): construction of the
real selectors, harness-side step recorders, and the boring numpy reference models."""

import warnings

import numpy as np

FPS_KINDS = ["FPS", "PCovFPS"]
CUR_KINDS = ["CUR", "PCovCUR"]
DIRS = ["sample", "feature"]


def make(kind, direction, **params):
    """Instantiate the real selector class."""
    if kind == "VoronoiFPS":
        from skmatter.sample_selection import VoronoiFPS

        return VoronoiFPS(**params)
    if direction == "sample":
        import skmatter.sample_selection as m
    else:
        import skmatter.feature_selection as m
    return getattr(m, kind)(**params)


def needs_y(kind):
    return kind in ("PCovFPS", "PCovCUR")


def axis_of(direction):
    return 0 if direction == "sample" else 1


def n_items(X, direction):
    return np.asarray(X).shape[axis_of(direction)]


def resolve_n(n_to_select, N):
    """Reference resolution of n_to_select (None -> half, int, float fraction)."""
    if n_to_select is None:
        return N // 2
    if isinstance(n_to_select, (int, np.integer)) and not isinstance(n_to_select, bool):
        return int(n_to_select) if 0 < n_to_select <= N else None
    if isinstance(n_to_select, float):
        return int(N * n_to_select) if 0 < n_to_select <= 1 else None
    return None


# --------------------------------------------------------------------------------------
# harness-side recorder: snapshots after every selection step (no source change; optional)


class StepRecorder:
    """Wraps `_update_post_selection` of ONE selector instance. Each call is a transition of
    the greedy state machine; the snapshot function reads the state reached."""

    def __init__(self, selector, snapshot):
        self.steps = []
        self.ok = False
        orig = getattr(selector, "_update_post_selection", None)
        if orig is None or not callable(orig):
            return
        rec = self

        def wrapped(X, y, last_selected):
            out = orig(X, y, last_selected)
            try:
                rec.steps.append((int(last_selected), snapshot(selector)))
            except Exception:  # a missing private attribute never becomes an alarm
                rec.steps.append((int(last_selected), None))
            return out

        try:
            selector._update_post_selection = wrapped
            self.ok = True
        except Exception:
            self.ok = False


class ScoreRecorder:
    """Wraps the public `score()` of one selector instance: records the score vector the
    greedy loop looked at before every pick."""

    def __init__(self, selector):
        self.scores = []
        self.ok = False
        orig = getattr(selector, "score", None)
        if orig is None:
            return
        rec = self

        def wrapped(X, y=None):
            s = orig(X, y)
            rec.scores.append(np.array(s, dtype=float, copy=True))
            return s

        try:
            selector.score = wrapped
            self.ok = True
        except Exception:
            self.ok = False


def fit_quiet(selector, X, y=None, warm_start=False):
    """fit; returns (list of warning messages, exception or None)."""
    with warnings.catch_warnings(record=True) as w:
        warnings.simplefilter("always")
        try:
            if warm_start:
                selector.fit(X, y, warm_start=True)
            else:
                selector.fit(X, y)
            exc = None
        except Exception as e:  # judged by the caller
            exc = e
    return [str(x.message) for x in w], exc


def query_all(s, X):
    """A fitted selector is QUERIED through every read-only accessor it has (results ignored): what is fitted or
    continued afterwards must not depend on it."""
    for name, args in (("get_support", ()), ("get_support", (True,)), ("get_distance", ()), ("get_select_distance", ()), ("transform", (X,))):
        fn = getattr(s, name, None)
        if callable(fn):
            try:
                fn(*args)
            except Exception:
                pass


def sibling_fit(kind, direction, X, y, p, n=2):
    """An UNRELATED selector of the same class and configuration, cold-fitted on other data of the
    same shape -- a step the harness inserts between two legs of another instance's warm-start chain
    (two live selectors of one class are ordinary use; whatever the first one continues from must be
    its own state). Its result is not judged here; returns the instance so it stays alive."""
    q = {k: v for k, v in p.items() if k not in ("score_threshold", "score_threshold_type")}
    N = n_items(X, direction)
    n0 = len(q["initialize"]) if isinstance(q.get("initialize"), list) else 1
    q["n_to_select"] = min(N, max(n0, n))
    Xo = np.ascontiguousarray(np.asarray(X, float)[::-1, ::-1]) * 40.0 + 3.0
    yo = None if y is None else (np.asarray(y, float)[::-1].copy() * -0.5 + 0.25)
    b = make(kind, direction, **q)
    fit_quiet(b, Xo, yo)
    return b


# --------------------------------------------------------------------------------------
# reference models


def sqdist_bruteforce(P):
    """Squared Euclidean distances between the rows of P, O(n^2 d), no norm trick."""
    P = np.asarray(P, float)
    diff = P[:, None, :] - P[None, :, :]
    return (diff * diff).sum(axis=2)


def rank_decision(s, hi=1e-6, lo=1e-12):
    """(rank, judgeable): singular values must be clearly non-zero or clearly zero."""
    s = np.asarray(s, float)
    if s.size == 0 or s[0] <= 0:
        return 0, True
    rel = s / s[0]
    grey = (rel < hi) & (rel > lo)
    return int((rel >= hi).sum()), not bool(grey.any())


def pcov_matrix(direction, X, y, mixing):
    """Independent PCovR-modified covariance (features) / Gram matrix (samples).

    features: a X^T X + (1-a) V U^T y y^T U V^T   (X = U S V^T, non-zero singular values)
    samples : a X X^T + (1-a) y y^T
    Returns (M, judgeable)."""
    X = np.asarray(X, float)
    Y = np.asarray(y, float).reshape(X.shape[0], -1)
    if direction == "sample":
        return mixing * (X @ X.T) + (1.0 - mixing) * (Y @ Y.T), True
    U, s, Vt = np.linalg.svd(X, full_matrices=False)
    r, ok = rank_decision(s)
    # the implementation thresholds eigenvalues of X^T X at an absolute 1e-12
    if r > 0 and (s[:r] ** 2 <= 1e-10).any():
        ok = False
    if (s[r:] ** 2 >= 1e-14).any():
        ok = False
    B = Vt[:r].T @ (U[:, :r].T @ Y)
    return mixing * (X.T @ X) + (1.0 - mixing) * (B @ B.T), ok


def distance_matrix(kind, direction, X, y=None, mixing=None):
    """Reference all-pairs squared distance for the FPS family. Returns (D, scale, ok)."""
    X = np.asarray(X, float)
    if kind in ("FPS", "VoronoiFPS"):
        P = X if direction == "sample" else X.T
        D = sqdist_bruteforce(P)
        scale = float((P * P).sum(axis=1).max()) if P.size else 0.0
        return D, scale, True
    M, ok = pcov_matrix(direction, X, y, mixing)
    d = np.diag(M)
    D = d[:, None] + d[None, :] - 2.0 * M
    # scale from the magnitudes of the inputs (a numerically zero M must not shrink the tolerance)
    scale = float((X * X).sum() + (np.asarray(y, float) ** 2).sum())
    return D, max(scale, float(np.abs(d).max())), ok


def span_basis(A, rtol=1e-10):
    """Orthonormal basis of the column span of A (SVD, rank by relative threshold)."""
    A = np.asarray(A, float)
    if A.size == 0:
        return np.zeros((A.shape[0], 0))
    U, sv, _ = np.linalg.svd(A, full_matrices=False)
    if sv.size == 0 or sv[0] <= 0:
        return np.zeros((A.shape[0], 0))
    return U[:, sv > rtol * sv[0]]


def residual_after(X, idx, direction):
    """X with the span of the selected columns (feature) / rows (sample) of the ORIGINAL
    matrix projected out (orthonormal basis from an SVD of the selected items)."""
    X = np.asarray(X, float)
    if len(idx) == 0:
        return X.copy()
    if direction == "feature":
        Q = span_basis(X[:, idx])
        return X - Q @ (Q.T @ X)
    Q = span_basis(X[idx].T)
    return X - (X @ Q) @ Q.T


# --------------------------------------------------------------------------------------
# concrete-state comparison (E2: a merge is accepted only after comparing every attribute)


def _arr_close(a, b, rtol):
    a = np.asarray(a)
    b = np.asarray(b)
    if a.shape != b.shape:
        return False
    if a.dtype == bool or b.dtype == bool or a.dtype.kind in "iu" and b.dtype.kind in "iu":
        return bool(np.array_equal(a, b))
    if a.dtype.kind not in "fiu" or b.dtype.kind not in "fiu":
        return bool(np.array_equal(a, b))
    a = a.astype(float)
    b = b.astype(float)
    inf_a, inf_b = ~np.isfinite(a), ~np.isfinite(b)
    if not np.array_equal(inf_a, inf_b):
        return False
    if inf_a.any() and not np.array_equal(a[inf_a], b[inf_b]):
        # nan != nan: treat equal positions of nan as equal
        if not (np.isnan(a[inf_a]) == np.isnan(b[inf_b])).all():
            return False
    fa, fb = a[~inf_a], b[~inf_b]
    if fa.size == 0:
        return True
    scale = max(1.0, float(np.max(np.abs(fa))), float(np.max(np.abs(fb))))
    return bool(np.max(np.abs(fa - fb)) <= rtol * scale)


def diff_states(a, b, skip=(), rtol=1e-9, loose=None):
    """Attribute-by-attribute comparison of two estimators' instance dicts.
    Returns a list of human-readable differences (empty = same concrete state)."""
    loose = loose or {}
    va = {k: v for k, v in vars(a).items() if k not in skip and not callable(v)}
    vb = {k: v for k, v in vars(b).items() if k not in skip and not callable(v)}
    out = []
    for k in sorted(set(va) | set(vb)):
        if k not in va or k not in vb:
            out.append("attribute %s only on %s" % (k, "first" if k in va else "second"))
            continue
        x, y = va[k], vb[k]
        if isinstance(x, np.ndarray) or isinstance(y, np.ndarray):
            if not (isinstance(x, np.ndarray) and isinstance(y, np.ndarray)) or not _arr_close(x, y, loose.get(k, rtol)):
                out.append("%s: %s vs %s" % (k, np.asarray(x).tolist() if np.size(x) < 40 else np.shape(x), np.asarray(y).tolist() if np.size(y) < 40 else np.shape(y)))
        elif isinstance(x, (int, float, np.integer, np.floating)) and isinstance(y, (int, float, np.integer, np.floating)) and not isinstance(x, bool):
            if not _arr_close(np.array([x], float), np.array([y], float), loose.get(k, rtol)):
                out.append("%s: %r vs %r" % (k, x, y))
        else:
            try:
                same = x == y
                if isinstance(same, np.ndarray):
                    same = bool(same.all())
            except Exception:
                same = x is y
            if not same:
                out.append("%s: %r vs %r" % (k, x, y))
    return out


# --------------------------------------------------------------------------------------
# CUR / PCov-CUR reference scores (dense SVD / eigh on an independently computed residual)

GAP = 1e-6


def cur_reference(kind, direction, X, y, prefix, k, mixing=None, gap=None):
    """Reference importance score in state "prefix selected" (as of a refresh in that state).

    Returns dict(pi, gap_ok, exhausted): pi = sum of squares over the top-k right (feature) /
    left (sample) singular vectors of the projection residual (CUR), or over the top-k
    eigenvectors of the PCovR-modified covariance / Gram matrix built from the residual X and
    the unexplained part of y (PCov-CUR). gap_ok is the judgeability rule of DESIGN §3.5."""
    X = np.asarray(X, float)
    gap = GAP if gap is None else gap
    prefix = [int(i) for i in prefix]
    uniq = sorted(set(prefix))
    Xr = residual_after(X, uniq, direction)
    s_full = np.linalg.svd(X, compute_uv=False)
    smax = s_full[0] if s_full.size else 0.0
    if kind == "CUR":
        U, sv, Vt = np.linalg.svd(Xr, full_matrices=False)
        if sv.size == 0 or sv[0] <= 1e-9 * max(smax, 1e-300):
            return dict(pi=None, gap_ok=False, exhausted=True)
        nxt = sv[k] if k < sv.size else 0.0
        gap_ok = k <= sv.size and (sv[k - 1] - nxt) / sv[0] > gap
        vec = Vt[:k].T if direction == "feature" else U[:, :k]
        return dict(pi=(vec ** 2).sum(axis=1), gap_ok=bool(gap_ok), exhausted=False, Xr=Xr)
    Y = np.asarray(y, float).reshape(X.shape[0], -1)
    if direction == "feature":
        if uniq:
            Q = span_basis(X[:, uniq])
            Yr = Y - Q @ (Q.T @ Y)
        else:
            Yr = Y.copy()
    else:
        if uniq:
            W = np.linalg.pinv(X[uniq]) @ Y[uniq]  # min-norm least squares on the selected samples only
            Yr = Y - X @ W
        else:
            Yr = Y.copy()
    M, ok = pcov_matrix(direction, Xr, Yr, mixing)
    M = (M + M.T) / 2.0
    w, V = np.linalg.eigh(M)
    w, V = w[::-1], V[:, ::-1]
    scale = max(abs(w[0]), 1e-300)
    sv_r = np.linalg.svd(Xr, compute_uv=False)
    exhausted = sv_r.size == 0 or sv_r[0] <= 1e-9 * max(smax, 1e-300)
    if abs(w[0]) <= 1e-12 * max(1.0, smax ** 2):
        return dict(pi=None, gap_ok=False, exhausted=True)
    nxt = w[k] if k < w.size else 0.0
    gap_ok = ok and k <= w.size and (w[k - 1] - nxt) / scale > gap
    # residual singular values in the grey zone make the inverse square root ambiguous
    if sv_r.size and smax > 0:
        rel = sv_r / smax
        if ((rel > 1e-12) & (rel < 1e-6)).any():
            gap_ok = False
    return dict(pi=(V[:, :k] ** 2).sum(axis=1), gap_ok=bool(gap_ok), exhausted=bool(exhausted), Xr=Xr, Yr=Yr)
